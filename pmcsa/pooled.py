"""Semantic analysis of PooledClient's public methods, shared by C07 (failure value, coverage), C08 (bracket and
non-escape), C09 (destroy_on_fail) and C16 (forwarding).

Each public method is interpreted with symbolic parameters for every (ignore_exc, outcome of the delegate call);
private helper methods of PooledClient are inlined and `getattr(client, <constant>)` is a bound method, so a helper
such as `_dict_cmd(name, *args)` that several methods share does not change what is observed:

  brackets   - the destroy_on_fail value of every get_and_release bracket entered
  calls      - (method name value, flattened positional values, keyword values) of every call on the pooled client
  escapes    - uses of the pooled client other than as the receiver of a call / argument of client_pool.destroy
  param uses - uses of a parameter other than being forwarded (iteration, passing to other code, re-binding)
  exits      - return value or exception per configuration"""
import ast
from collections import namedtuple

from .model import AnalysisError, node_src, is_self_attr, call_name
from .paths import Interp, Domain, Env, TOP, NONE, Const, TupleV, Exc, ORD, ASYNC, fmt_trace, Opaque
from .colls import ExactCollections as ExactCollectionsMixin, content, Ref, DictV

P = namedtuple("P", "name")
StarArgs = namedtuple("StarArgs", "name")
KwArgs = namedtuple("KwArgs", "name")
BoundCall = namedtuple("BoundCall", "obj attr")
ResultOf = namedtuple("ResultOf", "n")
Bracket = namedtuple("Bracket", "dof")
PC = Opaque("pooled-client")
POOL = Opaque("client-pool")
EMPTYDICT = ("emptydict",)


class PooledDomain(Domain):
    async_enabled = False
    subscript_may_raise = False
    unpack_may_raise = False
    global_keys = ("#brackets", "#calls", "#escapes", "#param_uses", "#destroys", "#raw", "#hold", "#back", "#late_use")

    def __init__(self, prog, fn, ignore_exc, outcome):
        super().__init__(prog, fn)
        self.ignore_exc = ignore_exc
        self.outcome = outcome  # 'ok' | 'raise' | 'interrupt' (the delegate call is aborted by a BaseException; analyse_holds only)

    # ---- facts -------------------------------------------------------------------------
    def _add(self, state, key, item):
        key = "#" + key  # internal fact keys never collide with a variable of the analysed program
        cur = state.get(key, ())
        if key in ("#param_uses", "#escapes", "#raw") and item in cur:
            return state  # a set of observations: repeating one (e.g. in a loop) changes nothing
        return state.set(key, cur + (item,))

    def truth(self, v, state=None):
        if v == PC or isinstance(v, (BoundCall, Bracket)):
            return True
        if v == EMPTYDICT:
            return False
        return super().truth(v, state)

    def never_none(self, v):
        return v == PC or isinstance(v, (BoundCall, Bracket, ResultOf)) and not isinstance(v, ResultOf) or super().never_none(v)

    def attr_load(self, objval, node, state):
        if is_self_attr(node, "ignore_exc"):
            return Const(self.ignore_exc)
        if is_self_attr(node, "client_pool"):
            return POOL
        if is_self_attr(node):
            return Opaque("self." + node.attr)
        if objval == POOL:
            return BoundCall(POOL, Const(node.attr))
        if objval == PC:
            return BoundCall(PC, Const(node.attr))
        return TOP

    def attr_store(self, objval, node, value, state):
        if value == PC:
            return self._add(state, "escapes", "stored in `%s`" % node_src(node))
        return state

    def name_store(self, name, value, state, node=None):
        cur = state.get(name, None)
        if isinstance(cur, (P, StarArgs)) and value != cur:
            state = self._add(state, "param_uses", "parameter `%s` is re-bound" % name)
        return state.set(name, value)

    def make_dict(self, keys, values, node, state):
        return EMPTYDICT if not keys else TOP

    def for_next(self, node, itval, state):
        if isinstance(itval, (P, StarArgs)):
            return [(TOP, self._add(state, "param_uses", "parameter `%s` is iterated (`%s`)" % (itval.name, node_src(node.iter if hasattr(node, "iter") else node, 40))))]
        return [(TOP, state)]

    def with_enter(self, item, value, state):
        if isinstance(value, Bracket):
            return [("ok", PC, self._add(state, "brackets", value.dof))]
        return super().with_enter(item, value, state)

    def ret_value(self, st, v, s):
        return v

    # ---- calls --------------------------------------------------------------------------------
    def call(self, node, fval, args, kwargs, state):
        name = call_name(node)
        if isinstance(fval, BoundCall) and fval.obj == POOL:
            attr = fval.attr.v if isinstance(fval.attr, Const) else None
            if attr == "get_and_release":
                dof = kwargs.get("destroy_on_fail", args[0] if args else Const(False))
                return [("ok", Bracket(dof), state)]
            # a hand-made bracket: `client = client_pool.get()` ... `client_pool.release(client)` / `.destroy(client)`.
            # "#hold" is the typestate of the checked-out client (held -> back), "#back" the calls that gave it back
            if attr in ("destroy", "release") and args and args[0] == PC and state.get("#hold", None) is not None:
                st = state.set("#hold", "back").set("#back", state.get("#back", ()) + (attr,))
                return [("ok", NONE, st)]
            if attr == "destroy" and args and args[0] == PC:
                return [("ok", NONE, self._add(state, "destroys", node.lineno))]
            if attr == "get":
                st = self._add(state, "raw", "client_pool.get()")
                if state.get("#hold", None) == "held":
                    st = self._add(st, "late_use", "a second client_pool.get() while the first client is still checked out (line %d)" % node.lineno)
                return [("ok", PC, st.set("#hold", "held"))]
            if attr == "release":
                return [("ok", NONE, self._add(state, "raw", "client_pool.release()"))]
            if attr == "clear":
                return [("ok", NONE, state)]
            return [("ok", TOP, state)]
        if name == "getattr" and len(args) >= 2 and args[0] == PC:
            return [("ok", BoundCall(PC, args[1]), state)]
        if isinstance(fval, BoundCall) and fval.obj == PC:
            flat = []
            for an, av in zip(node.args, args):
                if isinstance(an, ast.Starred):
                    if isinstance(av, StarArgs):
                        flat.append(("STAR", av.name))
                    elif isinstance(av, TupleV):
                        # a helper's own *args: splice what the caller passed
                        for it in av.items:
                            flat.append(("STAR", it.name) if isinstance(it, StarArgs) else _h(it))
                    else:
                        flat.append(("STAR?", _h(av)))
                else:
                    flat.append(_h(av))
            kws = []
            for k, v in kwargs.items():
                kws.append((k if not k.startswith("**") else "**", ("KW", v.name) if isinstance(v, KwArgs) else _h(v)))
            n = len(state.get("#calls", ())) + 1
            st = self._add(state, "calls", (fval.attr, tuple(flat), tuple(kws)))
            if state.get("#hold", None) == "back":
                st = self._add(st, "late_use", "client.%s is called after the client was given back to the pool (line %d)" % (_attr(fval.attr), node.lineno))
            if self.outcome == "ok":
                return [("ok", ResultOf(n), st)]
            return [("exc", Exc(ASYNC if self.outcome == "interrupt" else ORD, None, node.lineno), st)]
        if name.startswith("self._") and name.count(".") == 1 and self.prog is not None:
            m = self.prog.cls("PooledClient").methods.get(name[5:])
            if m is not None:
                res = self.inline(node, m, args, kwargs, state)
                if res is not None:
                    return res
        # anything else: the pooled client or a parameter handed to other code
        st = state
        for a in list(args) + list(kwargs.values()):
            if a == PC:
                st = self._add(st, "escapes", "passed to `%s`" % node_src(node, 50))
            if isinstance(a, (P, StarArgs)) and name not in ("isinstance", "len", "bool", "type"):
                st = self._add(st, "param_uses", "parameter `%s` is handed to `%s`" % (a.name, node_src(node, 50)))
        return [("ok", TOP, st)]


def _h(v):
    try:
        hash(v)
        return v
    except TypeError:
        return TOP


Run = namedtuple("Run", "fn ignore_exc outcome kind value state trace")


def analyse(prog):
    """-> {method name: [Run, ...]} for the public methods of PooledClient (aliases excluded)."""
    cache = prog.__dict__.setdefault("_pooled_runs", None)
    if cache is not None:
        return cache
    out = {}
    pooled = prog.cls("PooledClient")
    for name, f in sorted(pooled.methods.items()):
        if name.startswith("_") or name in ("close", "check_key"):
            continue
        runs = []
        for ign in (True, False):
            for outcome in ("ok", "raise"):
                dom = PooledDomain(prog, f, ign, outcome)
                env = {}
                for p in f.params:
                    if p.name == "self":
                        continue
                    env[p.name] = StarArgs(p.name) if p.kind == "vararg" else (KwArgs(p.name) if p.kind == "kwarg" else P(p.name))
                outs = Interp(dom, f.node, prog).run(Env(env))
                for s, v, t in outs.of("ret"):
                    runs.append(Run(f, ign, outcome, "ret", v, s, t))
                for s, v, t in outs.of("exc"):
                    runs.append(Run(f, ign, outcome, "exc", v, s, t))
        out[name] = runs
    prog.__dict__["_pooled_runs"] = out
    return out


def analyse_holds(prog):
    """Hand-made brackets.  -> {method name: [Run, ...]} for the public methods of PooledClient that check a client out
    with client_pool.get() themselves: the runs of `analyse` plus, per ignore_exc, one in which the delegate call is
    aborted by a BaseException (outcome 'interrupt').  What the rules read off each run: state['#hold'] at the exit
    ('held' = the client is still checked out: its slot is lost), state['#back'] (the calls that gave it back) and
    state['#late_use'] (calls on the client after it was given back, a second get)."""
    cache = prog.__dict__.get("_pooled_holds")
    if cache is not None:
        return cache
    out = {}
    pooled = prog.cls("PooledClient")
    for name, runs in analyse(prog).items():
        if not any(r.state.get("#hold", None) is not None for r in runs):
            continue
        f = pooled.methods[name]
        runs = list(runs)
        for ign in (True, False):
            dom = PooledDomain(prog, f, ign, "interrupt")
            env = {}
            for p in f.params:
                if p.name != "self":
                    env[p.name] = StarArgs(p.name) if p.kind == "vararg" else (KwArgs(p.name) if p.kind == "kwarg" else P(p.name))
            outs = Interp(dom, f.node, prog).run(Env(env))
            for kind in ("ret", "exc"):
                for s_, v, t in outs.of(kind):
                    runs.append(Run(f, ign, "interrupt", kind, v, s_, t))
        out[name] = runs
    prog.__dict__["_pooled_holds"] = out
    return out


def hold_problems(runs, colours=("ok", "raise", "interrupt")):
    """-> [(key suffix, message)] for the runs of one hand-made bracket (see analyse_holds)."""
    out = []
    for r in runs:
        if r.outcome not in colours:
            continue
        how = {"ok": "the call on the client succeeds", "raise": "the call on the client fails with an ordinary exception", "interrupt": "the call on the client is aborted by a BaseException (KeyboardInterrupt, gevent.Timeout)"}[r.outcome]
        exit_ = "returns normally" if r.kind == "ret" else "is left by the exception"
        if r.state.get("#hold", None) == "held":
            out.append(("client-not-given-back:%s" % r.outcome, "when %s, the method %s without release() or destroy(): the client stays in the pool's used list for ever, and after max_pool_size such calls every get() fails" % (how, exit_)))
        elif r.outcome != "ok" and "release" in r.state.get("#back", ()) and "destroy" not in r.state.get("#back", ()):
            out.append(("failed-client-released:%s" % r.outcome, "when %s, the client goes back to the free list with release(): the next caller gets a connection whose exchange failed half way" % how))
    return list(dict.fromkeys(out))


def value_term(v):
    """Abstract return value -> term comparable with rules_C07.term()."""
    if isinstance(v, P):
        return ("param", v.name)
    if isinstance(v, Const):
        return ("const", repr(v.v))
    if isinstance(v, TupleV):
        return ("tuple",) + tuple(value_term(x) for x in v.items)
    if v == EMPTYDICT:
        return ("emptydict",)
    if isinstance(v, ResultOf):
        return ("result",)
    return ("expr", str(v))


def forwarding_problems(prog, name, runs):
    """C16.R2 for one PooledClient method from its runs."""
    f = runs[0].fn if runs else None
    cf = prog.method("Client", name, required=False)
    if cf is None:
        return ["it has no counterpart on Client"]
    problems = []
    okruns = [r for r in runs if r.outcome == "ok"]
    if not okruns:
        return ["no path on which the delegate call succeeds"]
    for r in okruns:
        calls = r.state.get("#calls", ())
        if r.kind == "exc":
            problems.append("raises %s although the delegate call succeeded" % (r.value,))
            continue
        if len(calls) != 1:
            problems.append("%d calls on the pooled client (exactly one expected): %s" % (len(calls), [_attr(c[0]) for c in calls]))
            continue
        attr, flat, kws = calls[0]
        if attr != Const(name):
            problems.append("calls client.%s instead of client.%s" % (_attr(attr), name))
        cpos = [p.name for p in cf.pos_params()]
        seen = {}
        for i, a in enumerate(flat):
            if isinstance(a, tuple) and a and a[0] == "STAR":
                va = [p.name for p in f.params if p.kind == "vararg"]
                if not va or a[1] != va[0]:
                    problems.append("star argument is not the wrapper's own *args")
                else:
                    seen[va[0]] = seen.get(va[0], 0) + 1
                continue
            if i >= len(cpos):
                if not cf.has_varargs():
                    problems.append("too many positional arguments for Client.%s" % name)
                continue
            if not (isinstance(a, P) and a.name == cpos[i]):
                problems.append("positional argument %d is %s but lands on parameter `%s` of Client.%s" % (i + 1, _v(a), cpos[i], name))
            else:
                seen[a.name] = seen.get(a.name, 0) + 1
        for k, v in kws:
            if k == "**":
                ka = [p.name for p in f.params if p.kind == "kwarg"]
                if isinstance(v, tuple) and v and v[0] == "KW" and ka and v[1] == ka[0]:
                    seen[ka[0]] = seen.get(ka[0], 0) + 1
                else:
                    problems.append("** argument is not the wrapper's own **kwargs")
                continue
            if cf.param(k) is None and not cf.has_kwargs():
                problems.append("keyword `%s` is not a parameter of Client.%s" % (k, name))
            elif not (isinstance(v, P) and v.name == k):
                problems.append("`%s=%s` does not forward the same-named parameter unmodified" % (k, _v(v)))
            else:
                seen[k] = seen.get(k, 0) + 1
        for p in f.params:
            if p.name == "self":
                continue
            if seen.get(p.name, 0) != 1:
                problems.append("parameter `%s` is forwarded %d times" % (p.name, seen.get(p.name, 0)))
        if not isinstance(r.value, ResultOf) and not (r.value == NONE and _returns_none(cf)):
            problems.append("the delegate's result is not returned as is (returns %s)" % _v(r.value))
        for u in r.state.get("#param_uses", ()):
            problems.append(u + ": a one-shot iterable or a consumed value no longer reaches the delegate intact")
    return list(dict.fromkeys(problems))


def _returns_none(cf):
    ann = cf.node.returns
    if isinstance(ann, ast.Constant) and ann.value is None:
        return True
    rets = [r for r in ast.walk(cf.node) if isinstance(r, ast.Return) and r.value is not None and not (isinstance(r.value, ast.Constant) and r.value.value is None)]
    return not rets


def _attr(a):
    return a.v if isinstance(a, Const) else str(a)


def _v(v):
    if isinstance(v, P):
        return "`%s`" % v.name
    if isinstance(v, Const):
        return repr(v.v)
    return str(v)


# =====================================================================================================================
# Which constructor options reach the inner clients (C09.R3, C16.R3)
# =====================================================================================================================
Derived = namedtuple("Derived", "names")  # a value computed from these constructor parameters


class OptionsDomain(ExactCollectionsMixin, Domain):
    """PooledClient.__init__ followed by _create_client, interpreted: constructor parameters are symbols P(name); what
    the client class is finally called with is recorded, positional arguments and `**mapping` included."""

    async_enabled = False
    subscript_may_raise = False
    unpack_may_raise = False
    global_keys = ("#ctor",)

    def __init__(self, prog, fn, cls):
        super().__init__(prog, fn)
        self.cls = cls

    def names_of(self, v):
        if isinstance(v, P):
            return {v.name}
        if isinstance(v, Derived):
            return set(v.names)
        return set()

    def truth(self, v, state=None):
        if isinstance(v, (P, Derived)):
            return None
        return super().truth(v, state)

    def never_none(self, v):
        if isinstance(v, (P, Derived)):
            return False
        return super().never_none(v)

    def name_load(self, name, state, node=None):
        if state.has(name):
            return state.get(name)
        if self.prog is not None and name in self.prog.classes and name.endswith("Client"):
            return Opaque("class:" + name)
        return TOP

    def attr_load(self, objval, node, state):
        b = self.coll_attr(objval, node)
        if b is not None:
            return b
        if is_self_attr(node):
            if state.has("self." + node.attr):
                return state.get("self." + node.attr)
            ca = self.cls.attrs.get(node.attr) if hasattr(self.cls, "attrs") else None
            if ca is not None and node.attr != "client_class":
                from .model import fold, NotConst
                from .colls import lift_value

                try:
                    return lift_value(fold(ca, self.cls.module))
                except NotConst:
                    pass
            return Opaque("self." + node.attr)
        if isinstance(objval, (P, Derived)):
            return BoundCall(objval, Const(node.attr))
        return TOP

    def call(self, node, fval, args, kwargs, state):
        r = self.coll_call(node, fval, args, kwargs, state)
        if r is not None:
            return r
        name = call_name(node)
        if name == "getattr" and len(args) >= 2 and isinstance(node.args[0], ast.Name) and node.args[0].id == "self" and isinstance(args[1], Const) and isinstance(args[1].v, str):
            k = "self." + args[1].v
            return [("ok", state.get(k) if state.has(k) else Opaque(k), state)]
        if fval == Opaque("self.client_class") or name in ("self.client_class", "Client") or (isinstance(fval, Opaque) and fval.tag.startswith("class:")):
            kw = {"<class>": Const(fval.tag) if isinstance(fval, Opaque) else Const(name)}
            for k, v in kwargs.items():
                if k.startswith("**"):
                    c = content(v, state) if isinstance(v, Ref) else (v if isinstance(v, DictV) else None)
                    if c is None:
                        kw["**"] = TOP
                        continue
                    for kk, vv in c.items:
                        kw[kk.v if isinstance(kk, Const) else str(kk)] = vv
                else:
                    kw[k] = v
            rec = (tuple(args), tuple(sorted(kw.items(), key=lambda kv: kv[0])))
            return [("ok", Opaque("new-client"), state.set("#ctor", state.get("#ctor", ()) + (rec,)))]
        if name.startswith("self._") and name.count(".") == 1 and self.prog is not None:
            m = self.prog.method(self.cls, name[5:], required=False)
            if m is not None and m is not self.fn:
                res = self.inline(node, m, args, kwargs, state)
                if res is not None:
                    return res
        # anything else computed from constructor parameters derives from them
        ns = set()
        for a in list(args) + list(kwargs.values()):
            ns |= self.names_of(a)
        if isinstance(fval, BoundCall):
            ns |= self.names_of(fval.obj)
        if name == "isinstance":
            return [("ok", TOP, state)]
        return [("ok", Derived(frozenset(ns)) if ns else TOP, state)]


Callback = namedtuple("Callback", "node params kind")
# node: the Lambda / FunctionDef that runs; params: the names the caller's positional arguments bind to, in order;
# kind: 'lambda' | 'method' (of the constructing class, self bound) | 'static' | 'function' | 'unbound:<Class>.<method>'


def pool_constructions(prog, cname="PooledClient"):
    """The `ObjectPool(...)` calls of <cname>.__init__ -> [(call node, obj_creator expression, after_remove expression or None)]."""
    init = prog.method(prog.cls(cname), "__init__")
    out = []
    for n in ast.walk(init.node):
        if isinstance(n, ast.Call) and call_name(n).endswith("ObjectPool"):
            kw = {k.arg: k.value for k in n.keywords}
            out.append((n, n.args[0] if n.args else kw.get("obj_creator"), n.args[1] if len(n.args) > 1 else kw.get("after_remove")))
    return init, out


def resolve_callback(prog, cls, expr, fn=None):
    """The function a callback expression stands for - a lambda, `self._method` (plain or static), `Class.method`
    (unbound: the first argument is the receiver), a module-level function, or a local variable of `fn` assigned one of
    these exactly once.  -> Callback, or None when the expression is none of them (functools.partial, a call, ...)."""
    if isinstance(expr, ast.Lambda):
        a = expr.args
        if a.vararg or a.kwarg or a.kwonlyargs:
            return None
        return Callback(expr, tuple(x.arg for x in a.posonlyargs + a.args), "lambda")
    if is_self_attr(expr):
        m = prog.method(cls, expr.attr, required=False)
        if m is None:
            return None
        names = [p.name for p in m.params if p.kind not in ("vararg", "kwarg")]
        if any("staticmethod" in d for d in m.decorators):
            return Callback(m.node, tuple(names), "static")
        if any("classmethod" in d for d in m.decorators):
            return None
        return Callback(m.node, tuple(names[1:]), "method")
    if isinstance(expr, ast.Attribute) and isinstance(expr.value, ast.Name) and expr.value.id in prog.classes:
        c = prog.cls(expr.value.id)
        m = prog.method(c, expr.attr, required=False)
        if m is None or m.decorators:
            return None
        return Callback(m.node, tuple(p.name for p in m.params if p.kind not in ("vararg", "kwarg")), "unbound:%s.%s" % (c.name, expr.attr))
    if isinstance(expr, ast.Name):
        mod = cls.module
        if expr.id in mod.functions:
            f = mod.functions[expr.id]
            return Callback(f.node, tuple(p.name for p in f.params if p.kind not in ("vararg", "kwarg")), "function")
        if fn is not None:
            defs = [n for n in ast.walk(fn.node) if isinstance(n, ast.Assign) and len(n.targets) == 1 and isinstance(n.targets[0], ast.Name) and n.targets[0].id == expr.id]
            if len(defs) == 1:
                return resolve_callback(prog, cls, defs[0].value, None)
    return None


def callback_closure(prog, cls, cb):
    """The callback's own body plus the bodies of the private methods of its class it calls (transitively).
    -> [function / lambda nodes]"""
    seen, todo, out = set(), [cb.node], []
    while todo:
        n = todo.pop()
        if id(n) in seen:
            continue
        seen.add(id(n))
        out.append(n)
        for c in ast.walk(n):
            if isinstance(c, ast.Call) and is_self_attr(c.func):
                m = prog.method(cls, c.func.attr, required=False)
                if m is not None:
                    todo.append(m.node)
    return out


def creator_method(prog, cname="PooledClient"):
    """The method of <cname> that builds the pooled objects: what the pool's obj_creator callback is, or calls."""
    cls = prog.cls(cname)
    init, cons = pool_constructions(prog, cname)
    for call, oc, ar in cons:
        cb = resolve_callback(prog, cls, oc, init) if oc is not None else None
        if cb is None:
            continue
        if cb.kind == "method":
            return next(m for m in cls.methods.values() if m.node is cb.node)
        if cb.kind == "lambda" and isinstance(cb.node.body, ast.Call) and is_self_attr(cb.node.body.func) and not cb.node.body.args and not cb.node.body.keywords:
            m = prog.method(cls, cb.node.body.func.attr, required=False)
            if m is not None:
                return m
    return None


def created_client_options(prog, cname="PooledClient", creator=None):
    """-> list of (positional values, {option name: value}) - one per path through __init__ + _create_client - of the
    call that creates an inner client.  Values: P(name) = the constructor parameter itself, Derived({names}) = computed
    from those parameters, Const, or something else."""
    cls = prog.cls(cname)
    init = prog.method(cls, "__init__")
    cc = prog.method(cls, creator) if creator is not None else (creator_method(prog, cname) or prog.method(cls, "_create_client"))
    dom = OptionsDomain(prog, init, cls)
    env = {p.name: P(p.name) for p in init.params if p.name != "self"}
    outs = Interp(dom, init.node, prog).run(Env(env))
    out = []
    for s, v, t in outs.of("ret"):
        inst = {k: val for k, val in s.d.items() if (isinstance(k, str) and k.startswith("self.")) or isinstance(k, tuple)}
        d2 = OptionsDomain(prog, cc, cls)
        for p_ in cc.params:
            if p_.name != "self":
                inst[p_.name] = Opaque("arg:" + p_.name) if not p_.has_default else NONE
        o2 = Interp(d2, cc.node, prog).run(Env(inst))
        for s2, v2, t2 in o2.of("ret"):
            for pos, kw in s2.get("#ctor", ()):
                kw = dict(kw)
                kw.pop("<class>", None)
                out.append((pos, kw))
    return init, cc, out


class _CallbackDomain(Domain):
    """What the pool's after_remove callback does with the client it is given."""

    async_enabled = False
    global_keys = ("#cb",)

    def attr_load(self, objval, node, state):
        if objval == Opaque("removed-client"):
            return BoundCall(objval, Const(node.attr))
        return TOP

    def call(self, node, fval, args, kwargs, state):
        if isinstance(fval, BoundCall) and fval.obj == Opaque("removed-client"):
            return [("ok", NONE, state.set("#cb", state.get("#cb", ()) + (fval.attr.v,)))]
        st = state
        if any(a == Opaque("removed-client") for a in list(args) + list(kwargs.values())):
            st = st.set("#cb", st.get("#cb", ()) + ("<passed to %s>" % call_name(node),))
        return [("ok", TOP, st)]


def _named_callback_calls(prog, cls, init):
    """after_remove given as `self._method`, `Class.method` or a function: what it calls on the client it is handed."""
    out = []
    _, cons = pool_constructions(prog, cls.name)
    for call, oc, ar in cons:
        cb = resolve_callback(prog, cls, ar, init) if ar is not None else None
        if cb is None or not cb.params:
            return None
        if cb.kind.startswith("unbound:"):
            out.append((cb.kind.split(".")[-1],))  # `Client.close`: the callback is that method, applied to the client
            continue
        if cb.kind == "lambda":
            return None  # (a lambda is followed as a value by the caller)
        d2 = _CallbackDomain(prog, init)
        outs = Interp(d2, cb.node, prog).run(Env({cb.params[0]: Opaque("removed-client")}))
        for s_, v, t in outs.of("ret"):
            out.append(tuple(s_.get("#cb", ())))
        for s_, e, t in outs.of("exc"):
            out.append(tuple(s_.get("#cb", ())) + ("<raises %s>" % (e.cls or "an exception"),))
    return out


def after_remove_calls(prog, cname="PooledClient"):
    """The methods the pool's after_remove callback calls on the removed client, per path; None if the callback is
    not a lambda / method this analysis can follow.  (The callback runs inside ObjectPool.get / destroy / clear, i.e.
    also on the way *into* a pooled call, outside that call's own error handling.)"""
    cls = prog.cls(cname)
    init = prog.method(cls, "__init__")

    class Finder(OptionsDomain):
        def call(self, node, fval, args, kwargs, state):
            if call_name(node).endswith("ObjectPool"):
                return [("ok", Opaque("pool"), state.set("#pool", state.get("#pool", ()) + (kwargs.get("after_remove", NONE),)))]
            return super().call(node, fval, args, kwargs, state)

        def is_global_key(self, k):
            return k == "#pool" or super().is_global_key(k)

    dom = Finder(prog, init, cls)
    outs = Interp(dom, init.node, prog).run(Env({p.name: P(p.name) for p in init.params if p.name != "self"}))
    found = []
    for s, v, t in outs.of("ret"):
        for cb in s.get("#pool", ()):
            if cb == NONE:
                found.append(())
                continue
            from .paths import LambdaV

            if not isinstance(cb, LambdaV):
                res = _named_callback_calls(prog, cls, init)
                if res is None:
                    return None
                found += res
                continue
            d2 = _CallbackDomain(prog, init)
            res = d2.apply_lambda(cb.node, cb, [Opaque("removed-client")], {}, Env())
            if res is None:
                return None
            for r in res:
                found.append(tuple(r[2].get("#cb", ())))
    return found
