"""Abstract evaluation of check_key_helper over a byte-string *shape* domain (kind A).

An abstract key is a pattern - a sequence of runs, each run standing for one or more characters of one class:

  'x'   ASCII bytes / characters that are neither whitespace nor NUL
  'h'   bytes >= 0x80 (bytes keys, and what non-ASCII characters encode to under utf8)
  'u'   non-ASCII characters (str keys only; encode to several 'h' bytes under utf8, fail under ascii)
  ' ' '\\t' '\\n' '\\x0b' '\\x0c' '\\r'   the six bytes bytes.split() splits on
  '\\0'  NUL

together with a length scenario (characters C, encoded bytes E, prefix bytes P, total T = P + E) whose values
are taken around the 250-byte boundary.  Every operation the function applies must have an exact transformer on
this domain (split, len vs constant, token/whole comparison, membership of a special byte, a regex character-class
search, concatenation with the prefix, encode); anything else raises Unsupported -> ANALYSIS-ERROR.  The evaluator
never builds concrete strings and never runs repository code."""
import ast

from .model import AnalysisError, NotConst, fold, node_src

WS = (" ", "\t", "\n", "\x0b", "\x0c", "\r")
NUL = "\0"
SPECIAL = WS + (NUL,)


class Unsupported(AnalysisError):
    pass


class Raised(Exception):
    def __init__(self, cls, node=None):
        self.cls = cls
        self.node = node


class AStr:
    """Abstract str/bytes value."""

    def __init__(self, tag, pat, lenkind, scen):
        self.tag = tag  # 'str' | 'bytes'
        self.pat = tuple(pat)
        self.lenkind = lenkind  # 'C' chars of the str key, 'E' encoded key, 'P' prefix, 'T' prefix+encoded, ('lit', n)
        self.scen = scen

    def length(self):
        if isinstance(self.lenkind, tuple):
            return self.lenkind[1]
        return self.scen[self.lenkind]

    def __repr__(self):
        return "AStr(%s,%r,%s)" % (self.tag, "".join(self.pat), self.lenkind)


class AParts:
    def __init__(self, tokens, whole):
        self.tokens = tokens  # list of token patterns
        self.whole = whole


class ALen:
    def __init__(self, n):
        self.n = n


class AType:
    def __init__(self, names):
        self.names = names


def merge(p):
    out = []
    for s in p:
        if not out or out[-1] != s:
            out.append(s)
    return tuple(out)


def tokens_of(pat):
    toks, cur = [], []
    for s in pat:
        if s in WS:
            if cur:
                toks.append(tuple(cur))
                cur = []
        else:
            cur.append(s)
    if cur:
        toks.append(tuple(cur))
    return toks


def regex_charset(pattern):
    """Characters a search pattern can match, if it is a single character-class / literal / alternation of those."""
    import re

    try:
        parsed = re._parser.parse(pattern)
    except Exception as e:
        raise Unsupported("cannot parse regular expression %r: %s" % (pattern, e))
    from re import _constants as C

    def of(item):
        op, av = item
        if op is C.LITERAL:
            return {av}
        if op is C.IN:
            s, neg = set(), False
            for o, a in av:
                if o is C.LITERAL:
                    s.add(a)
                elif o is C.RANGE:
                    s.update(range(a[0], a[1] + 1))
                elif o is C.NEGATE:
                    neg = True
                elif o is C.CATEGORY:
                    if a is C.CATEGORY_SPACE:
                        s.update(b" \t\n\r\x0b\x0c")
                        if isinstance(pattern, str):
                            s.update({0x1C, 0x1D, 0x1E, 0x1F, 0x85, 0xA0})
                    elif a is C.CATEGORY_DIGIT:
                        s.update(range(48, 58))
                    else:
                        raise Unsupported("regex category %s" % a)
                else:
                    raise Unsupported("regex class item %s" % o)
            return set(range(256)) - s if neg else s
        if op is C.BRANCH:
            s = set()
            for alt in av[1]:
                if len(alt) != 1:
                    raise Unsupported("regex alternative longer than one character")
                s |= of(alt[0])
            return s
        if op is C.CATEGORY:
            return of((C.IN, [(C.CATEGORY, av)]))
        raise Unsupported("regex construct %s (only single-character searches are modelled)" % op)

    items = list(parsed)
    if len(items) != 1:
        raise Unsupported("regex %r matches more than a single character" % (pattern,))
    return of(items[0])


class KeyEval:
    """Evaluates one function (check_key_helper) on one abstract input."""

    def __init__(self, prog, fn):
        self.prog = prog
        self.fn = fn
        self.module = fn.module
        self.flow = []  # (what, tag) events for the bytes-not-characters rule

    def run(self, env):
        self.env = dict(env)
        # parameters beyond the ones the scenario binds take their declared defaults (what every caller that does not
        # pass them gets; callers that do pass them are the business of C20.R5's validation-option rule)
        for p_ in self.fn.params:
            if p_.name not in self.env and p_.name != "self":
                if not (p_.has_default and isinstance(p_.default, ast.Constant)):
                    raise Unsupported("parameter %s of %s has no constant default" % (p_.name, self.fn.name))
                self.env[p_.name] = p_.default.value
        try:
            self.block(self.fn.node.body)
        except _Return as r:
            return ("return", r.value)
        except Raised as r:
            return ("raise", r.cls)
        return ("return", None)

    # ---- statements ---------------------------------------------------------------
    def block(self, stmts):
        for s in stmts:
            self.stmt(s)

    def stmt(self, s):
        if isinstance(s, ast.Expr):
            if isinstance(s.value, ast.Constant):
                return
            self.ev(s.value)
        elif isinstance(s, ast.Assign):
            v = self.ev(s.value)
            for t in s.targets:
                if not isinstance(t, ast.Name):
                    raise Unsupported("assignment target %s at line %d" % (node_src(t), s.lineno))
                self.env[t.id] = v
        elif isinstance(s, ast.AugAssign) and isinstance(s.target, ast.Name):
            fake = ast.BinOp(left=ast.Name(id=s.target.id, ctx=ast.Load()), op=s.op, right=s.value)
            ast.copy_location(fake, s)
            ast.fix_missing_locations(fake)
            self.env[s.target.id] = self.ev(fake)
        elif isinstance(s, ast.If):
            if self.truth(self.ev(s.test)):
                self.block(s.body)
            else:
                self.block(s.orelse)
        elif isinstance(s, ast.Return):
            raise _Return(self.ev(s.value) if s.value is not None else None)
        elif isinstance(s, ast.Raise):
            if s.exc is None:
                raise Raised(self.cur_exc, s)
            e = s.exc.func if isinstance(s.exc, ast.Call) else s.exc
            name = e.id if isinstance(e, ast.Name) else (e.attr if isinstance(e, ast.Attribute) else "?")
            mod_ = getattr(self, "module", None) or getattr(getattr(self, "fn", None), "module", None)
            if mod_ is not None and isinstance(e, ast.Name) and name in mod_.functions:
                # the exception is built by a module-level helper: the class its returns construct
                name = raised_class_name(s.exc, mod_)
                if name is None:
                    raise Unsupported("raise of %s(...) at line %d: what the helper returns is not one exception class" % (e.id, s.lineno))
            if isinstance(s.exc, ast.Call):
                # the arguments of the exception are evaluated first: building the message may itself raise
                for a in list(s.exc.args) + [k.value for k in s.exc.keywords]:
                    if any(isinstance(n, ast.Call) for n in ast.walk(a)):
                        try:
                            self.ev(a)
                        except Unsupported:
                            # a message built with something this domain does not model: only its failures matter, and
                            # the conversions between str and bytes are the calls that fail on particular keys - each
                            # of them is evaluated on its own (an unmodelled one stops the analysis)
                            for c in ast.walk(a):
                                if isinstance(c, ast.Call) and isinstance(c.func, ast.Attribute) and c.func.attr in ("decode", "encode"):
                                    self.ev(c)
            raise Raised(name, s)
        elif isinstance(s, ast.Try):
            try:
                self.block(s.body)
            except Raised as r:
                for h in s.handlers:
                    names = []
                    if h.type is not None:
                        names = [ast.unparse(x).split(".")[-1] for x in (h.type.elts if isinstance(h.type, ast.Tuple) else [h.type])]
                    bases = self.prog.exception_bases(r.cls)
                    if h.type is None or any(n in bases for n in names):
                        self.cur_exc = r.cls
                        self.block(h.body)
                        break
                else:
                    raise
            else:
                self.block(s.orelse)
            finally:
                if s.finalbody:
                    self.block(s.finalbody)
        elif isinstance(s, ast.Pass):
            pass
        elif isinstance(s, ast.Assert):
            if not self.truth(self.ev(s.test)):
                raise Raised("AssertionError", s)
        else:
            raise Unsupported("statement %s at line %d of %s" % (type(s).__name__, s.lineno, self.fn.qualname))

    # ---- expressions -------------------------------------------------------------
    def truth(self, v):
        if isinstance(v, bool):
            return v
        if v is None:
            return False
        if isinstance(v, AStr):
            return v.length() > 0
        if isinstance(v, AParts):
            return len(v.tokens) > 0
        if isinstance(v, ALen):
            return v.n != 0
        if isinstance(v, (int, bytes, str)):
            return bool(v)
        raise Unsupported("truth value of %r" % (v,))

    def ev(self, e):
        if isinstance(e, ast.Constant):
            if isinstance(e.value, (bytes, str)):
                return self.literal(e.value)
            return e.value
        if isinstance(e, ast.Name):
            if e.id in self.env:
                return self.env[e.id]
            if e.id in ("str", "bytes", "bytearray", "int"):
                return AType((e.id,))
            if e.id in self.module.assigns:
                return ("modconst", e.id)
            raise Unsupported("name %s at line %d" % (e.id, e.lineno))
        if isinstance(e, ast.Tuple):
            vals = [self.ev(x) for x in e.elts]
            if all(isinstance(v, AType) for v in vals):
                return AType(tuple(n for v in vals for n in v.names))
            return tuple(vals)
        if isinstance(e, ast.BoolOp):
            res = None
            for v in e.values:
                res = self.ev(v)
                t = self.truth(res)
                if isinstance(e.op, ast.And) and not t:
                    return res
                if isinstance(e.op, ast.Or) and t:
                    return res
            return res
        if isinstance(e, ast.UnaryOp) and isinstance(e.op, ast.Not):
            return not self.truth(self.ev(e.operand))
        if isinstance(e, ast.IfExp):
            return self.ev(e.body) if self.truth(self.ev(e.test)) else self.ev(e.orelse)
        if isinstance(e, ast.Compare):
            left = self.ev(e.left)
            for op, c in zip(e.ops, e.comparators):
                right = self.ev(c)
                if not self.cmp(op, left, right, e):
                    return False
                left = right
            return True
        if isinstance(e, ast.BinOp):
            l, r = self.ev(e.left), self.ev(e.right)
            if isinstance(e.op, ast.Add) and isinstance(l, AStr) and isinstance(r, AStr):
                if l.tag != r.tag:
                    raise Raised("TypeError", e)
                kinds = {l.lenkind, r.lenkind}
                if kinds == {"P", "E"}:
                    lk = "T"
                elif l.length() == 0:
                    lk = r.lenkind
                elif r.length() == 0:
                    lk = l.lenkind
                else:
                    lk = ("lit", l.length() + r.length())
                return AStr(l.tag, merge(l.pat + r.pat), lk, l.scen)
            if isinstance(e.op, ast.Mod):
                return self.literal("message")
            if isinstance(l, ALen) and isinstance(r, int):
                l = l.n
            if isinstance(l, int) and isinstance(r, (int, ALen)):
                r = r.n if isinstance(r, ALen) else r
                if isinstance(e.op, ast.Add):
                    return ALen(l + r)
                if isinstance(e.op, ast.Sub):
                    return ALen(l - r)
            raise Unsupported("binary operation %s at line %d" % (node_src(e), e.lineno))
        if isinstance(e, ast.Subscript):
            v = self.ev(e.value)
            if isinstance(v, AParts):
                try:
                    i = fold(e.slice)
                except NotConst:
                    raise Unsupported("non-constant index at line %d" % e.lineno)
                if not isinstance(i, int) or not (-len(v.tokens) <= i < len(v.tokens)):
                    raise Raised("IndexError", e)
                return ("token", v.tokens[i], v.whole)
            if isinstance(v, AStr) and isinstance(e.slice, ast.Slice):
                # a slice of a key: some run of its characters / bytes - of the same classes, possibly cut anywhere (a
                # slice of UTF-8 bytes can end inside a multi-byte character); its length is not followed
                sl = AStr(v.tag, v.pat, ("lit", 0), v.scen)
                sl.is_slice = True
                return sl
            raise Unsupported("subscript %s at line %d" % (node_src(e), e.lineno))
        if isinstance(e, ast.Call):
            return self.call(e)
        if isinstance(e, ast.NamedExpr) and isinstance(e.target, ast.Name):
            v = self.ev(e.value)
            self.env[e.target.id] = v
            return v
        if isinstance(e, ast.JoinedStr):
            return self.literal("message")
        if isinstance(e, ast.Attribute):
            raise Unsupported("attribute %s at line %d" % (node_src(e), e.lineno))
        raise Unsupported("expression %s at line %d" % (type(e).__name__, getattr(e, "lineno", 0)))

    def literal(self, v):
        tag = "bytes" if isinstance(v, bytes) else "str"
        chars = [chr(b) for b in v] if isinstance(v, bytes) else list(v)
        pat = merge(c if c in SPECIAL else ("x" if ord(c) < 128 else ("h" if tag == "bytes" else "u")) for c in chars)
        a = AStr(tag, pat, ("lit", len(v)), None)
        a.lit = v
        return a

    def cmp(self, op, l, r, node):
        if isinstance(op, (ast.Gt, ast.GtE, ast.Lt, ast.LtE)):
            a = l.n if isinstance(l, ALen) else l
            b = r.n if isinstance(r, ALen) else r
            if isinstance(a, int) and isinstance(b, int):
                return {ast.Gt: a > b, ast.GtE: a >= b, ast.Lt: a < b, ast.LtE: a <= b}[type(op)]
            raise Unsupported("ordering comparison %s" % node_src(node))
        if isinstance(op, (ast.Eq, ast.NotEq)):
            eq = self.equal(l, r, node)
            return eq if isinstance(op, ast.Eq) else not eq
        if isinstance(op, (ast.In, ast.NotIn)):
            if isinstance(l, AStr) and isinstance(r, AStr) and hasattr(l, "lit"):
                self.flow.append(("in", r.tag, r.lenkind))
                if l.tag != r.tag:
                    raise Raised("TypeError", node)
                if len(l.lit) != 1:
                    raise Unsupported("membership test of a multi-character literal %r" % (l.lit,))
                c = chr(l.lit[0]) if isinstance(l.lit, bytes) else l.lit
                if c in SPECIAL:
                    res = c in r.pat
                else:
                    raise Unsupported("membership test of the ordinary character %r is not invariant on the shape domain" % c)
                return res if isinstance(op, ast.In) else not res
            raise Unsupported("membership test %s" % node_src(node))
        if isinstance(op, (ast.Is, ast.IsNot)):
            res = l is r
            return res if isinstance(op, ast.Is) else not res
        raise Unsupported("comparison operator in %s" % node_src(node))

    def equal(self, l, r, node):
        def norm(v):
            if isinstance(v, tuple) and v and v[0] == "token":
                # a token equals the whole string iff the whole string consists of exactly that token
                return ("pat", v[1], "token-of", v[2])
            if isinstance(v, AStr):
                return ("pat", v.pat, "whole", v)
            return ("other", v)
        a, b = norm(l), norm(r)
        if a[0] == "pat" and b[0] == "pat":
            for x, y in ((a, b), (b, a)):
                if x[2] == "token-of" and y[2] == "whole":
                    if y[3] is x[3] or y[3].pat == x[3].pat:
                        return tuple(y[1]) == tuple(x[1])
                    return tuple(y[1]) == tuple(x[1]) and y[3].length() == x[3].length()
            if a[2] == "whole" and b[2] == "whole":
                la, lb = a[3], b[3]
                if la.length() != lb.length():
                    return False
                if la.length() == 0:
                    return True
                if la is lb:
                    return True
                if hasattr(la, "lit") and hasattr(lb, "lit"):
                    return la.lit == lb.lit
                if la.pat != lb.pat:
                    return False
                raise Unsupported("equality of two distinct non-literal strings in %s" % node_src(node))
        if isinstance(l, ALen) or isinstance(r, ALen):
            x = l.n if isinstance(l, ALen) else l
            y = r.n if isinstance(r, ALen) else r
            return x == y
        if a[0] == "other" and b[0] == "other":
            return l == r
        return False

    def call(self, e):
        f = e.func
        if isinstance(f, ast.Name):
            if f.id == "isinstance" and len(e.args) == 2:
                v, t = self.ev(e.args[0]), self.ev(e.args[1])
                if not isinstance(t, AType):
                    raise Unsupported("isinstance against %s" % node_src(e.args[1]))
                tag = v.tag if isinstance(v, AStr) else type(v).__name__
                return tag in t.names
            if f.id == "len" and len(e.args) == 1:
                v = self.ev(e.args[0])
                if isinstance(v, AStr):
                    self.flow.append(("len", v.tag, v.lenkind))
                    return ALen(v.length())
                if isinstance(v, AParts):
                    return ALen(len(v.tokens))
                raise Unsupported("len of %r" % (v,))
            if f.id in ("repr", "str", "ascii") and len(e.args) == 1:
                self.ev(e.args[0])
                return self.literal("message")
            if f.id in ("bool",) and len(e.args) == 1:
                return self.truth(self.ev(e.args[0]))
            if f.id == "any" or f.id == "all":
                raise Unsupported("%s(...) over characters at line %d" % (f.id, e.lineno))
            helper = self.module.functions.get(f.id)
            if helper is not None and helper is not self.fn and getattr(self, "depth", 0) < 3:
                # a module-level helper (e.g. an extracted encoding step): evaluated in line on the same abstract input
                args = [self.ev(a) for a in e.args]
                if any(isinstance(a, ast.Starred) for a in e.args) or any(k.arg is None for k in e.keywords):
                    raise Unsupported("star arguments in the call of %s at line %d" % (f.id, e.lineno))
                env = {}
                for p_, a in zip(helper.pos_params(), args):
                    env[p_.name] = a
                for k in e.keywords:
                    env[k.arg] = self.ev(k.value)
                for p_ in helper.params:
                    if p_.name not in env:
                        if not p_.has_default:
                            raise Raised("TypeError", e)
                        env[p_.name] = self.ev(p_.default)
                sub = KeyEval(self.prog, helper)
                sub.depth = getattr(self, "depth", 0) + 1
                sub.flow = self.flow
                sub.env = env
                try:
                    sub.block(helper.node.body)
                except _Return as r:
                    return r.value
                return None
            raise Unsupported("call of %s at line %d" % (f.id, e.lineno))
        if isinstance(f, ast.Attribute):
            # regex search:  NAME.search(key) / re.search(lit, key)
            if f.attr in ("search", "match", "fullmatch", "findall"):
                pattern, target = None, None
                if isinstance(f.value, ast.Name) and f.value.id in self.module.assigns:
                    rc = self.module.assigns[f.value.id]
                    if isinstance(rc, ast.Call) and node_src(rc.func) in ("re.compile", "compile") and rc.args and isinstance(rc.args[0], ast.Constant):
                        pattern = rc.args[0].value
                        target = self.ev(e.args[0])
                elif isinstance(f.value, ast.Name) and f.value.id == "re" and len(e.args) >= 2 and isinstance(e.args[0], ast.Constant):
                    pattern = e.args[0].value
                    target = self.ev(e.args[1])
                if pattern is None or f.attr != "search" or not isinstance(target, AStr):
                    raise Unsupported("regular expression use %s at line %d" % (node_src(e), e.lineno))
                if isinstance(pattern, bytes) != (target.tag == "bytes"):
                    raise Raised("TypeError", e)
                self.flow.append(("search", target.tag, target.lenkind))
                cs = regex_charset(pattern)
                special_hit = any(ord(s) in cs for s in target.pat if s in SPECIAL)
                ordinary = cs - {ord(c) for c in SPECIAL}
                ordinary_hit = bool(ordinary) and any(s in ("x", "u", "h") for s in target.pat)
                return True if (special_hit or ordinary_hit) else None
            v = self.ev(f.value)
            if isinstance(v, tuple) and len(v) == 2 and v[0] == "modconst" and f.attr in ("isdisjoint", "intersection") and len(e.args) == 1:
                # a module-level set of byte values tested against the key: which of the key's bytes are in it
                codes = _byteset(self.module.assigns[v[1]])
                target = self.ev(e.args[0])
                if codes is None or not isinstance(target, AStr):
                    raise Unsupported("method call %s at line %d" % (node_src(e), e.lineno))
                self.flow.append(("member", target.tag, target.lenkind))
                if target.tag != "bytes":
                    hit = False  # the elements of a str are characters, never equal to an int
                else:
                    if (codes - {ord(c) for c in SPECIAL}) and any(s_ in ("x", "u", "h") for s_ in target.pat):
                        raise Unsupported("%s holds ordinary byte values: membership of an unspecified byte at line %d" % (v[1], e.lineno))
                    hit = any(ord(s_) in codes for s_ in target.pat if s_ in SPECIAL)
                return (not hit) if f.attr == "isdisjoint" else hit
            if isinstance(v, AStr):
                if f.attr == "encode":
                    if v.tag != "str":
                        raise Raised("AttributeError", e)
                    codec = "utf8"
                    if e.args:
                        c = self.ev(e.args[0])
                        codec = c.lit if hasattr(c, "lit") else None
                    codec = (codec or "").lower().replace("-", "").replace("_", "")
                    if codec not in ("utf8", "ascii"):
                        raise Unsupported("codec %r at line %d" % (codec, e.lineno))
                    self.flow.append(("encode", codec, v.lenkind))
                    if "u" in v.pat and codec == "ascii":
                        raise Raised("UnicodeEncodeError", e)
                    if v.lenkind != "C":
                        raise Unsupported("encode of a non-key string at line %d" % e.lineno)
                    return AStr("bytes", merge("h" if s == "u" else s for s in v.pat), "E", v.scen)
                if f.attr == "split":
                    if e.args:
                        raise Unsupported("split with an explicit separator at line %d" % e.lineno)
                    self.flow.append(("split", v.tag, v.lenkind))
                    return AParts(tokens_of(v.pat), v)
                if f.attr in ("strip", "lstrip", "rstrip") and not e.args:
                    pat = list(v.pat)
                    if f.attr in ("strip", "lstrip"):
                        while pat and pat[0] in WS:
                            pat.pop(0)
                    if f.attr in ("strip", "rstrip"):
                        while pat and pat[-1] in WS:
                            pat.pop()
                    self.flow.append(("strip", v.tag, v.lenkind))
                    if tuple(pat) == v.pat:
                        return v
                    return AStr(v.tag, tuple(pat), ("lit", max(0, v.length() - (len(v.pat) - len(pat)))), v.scen)
                if f.attr == "decode":
                    if v.tag != "bytes":
                        raise Raised("AttributeError", e)
                    codec = "utf8"
                    if e.args:
                        c = self.ev(e.args[0])
                        codec = c.lit if hasattr(c, "lit") else None
                    codec = (codec or "").lower().replace("-", "").replace("_", "")
                    errs = e.args[1] if len(e.args) > 1 else next((k.value for k in e.keywords if k.arg == "errors"), None)
                    if errs is not None and isinstance(errs, ast.Constant) and errs.value in ("replace", "ignore", "backslashreplace", "surrogateescape"):
                        return AStr("str", v.pat, ("lit", v.length()), v.scen)  # a lossy handler never raises
                    if codec in ("utf8", "ascii") and "h" in v.pat:
                        # bytes >= 0x80 are arbitrary: some of them are not valid UTF-8 (none is ASCII)
                        raise Raised("UnicodeDecodeError", e)
                    if codec not in ("utf8", "ascii", "latin1", "iso88591"):
                        raise Unsupported("codec %r at line %d" % (codec, e.lineno))
                    return AStr("str", v.pat, ("lit", v.length()), v.scen)
                if f.attr == "isascii" and not e.args:
                    self.flow.append(("isascii", v.tag, v.lenkind))
                    return not any(s in ("u", "h") for s in v.pat)
                if f.attr == "isspace" and not e.args:
                    return bool(v.pat) and all(s in WS for s in v.pat)
            raise Unsupported("method call %s at line %d" % (node_src(e), e.lineno))
        raise Unsupported("call %s at line %d" % (node_src(e), e.lineno))


def raised_class_name(exc_expr, module):
    """The class a `raise <expr>` raises, by name.  `raise Helper(...)` where Helper is a module-level *function* that
    builds the exception: the class all of its return statements construct (None if they do not agree)."""
    e = exc_expr.func if isinstance(exc_expr, ast.Call) else exc_expr
    name = e.id if isinstance(e, ast.Name) else (e.attr if isinstance(e, ast.Attribute) else "?")
    fn = module.functions.get(name) if module is not None and isinstance(e, ast.Name) else None
    if fn is None:
        return name
    built = set()
    for n in ast.walk(fn.node):
        if isinstance(n, ast.Return) and n.value is not None:
            v = n.value
            if isinstance(v, ast.Call) and isinstance(v.func, (ast.Name, ast.Attribute)):
                built.add(v.func.id if isinstance(v.func, ast.Name) else v.func.attr)
            else:
                built.add("?")
    return built.pop() if len(built) == 1 and "?" not in built else None


def _byteset(node):
    """The set of byte values a module-level constant denotes: frozenset(b"..") / set(b"..") / b".." / a literal
    collection of ints or one-byte literals; None if it is something else."""
    if isinstance(node, ast.Call) and isinstance(node.func, ast.Name) and node.func.id in ("frozenset", "set", "tuple", "list", "bytes", "bytearray") and len(node.args) == 1 and not node.keywords:
        return _byteset(node.args[0])
    if isinstance(node, ast.Constant) and isinstance(node.value, bytes):
        return set(node.value)
    if isinstance(node, (ast.Tuple, ast.List, ast.Set)):
        out = set()
        for x in node.elts:
            if isinstance(x, ast.Constant) and isinstance(x.value, int) and not isinstance(x.value, bool):
                out.add(x.value)
            elif isinstance(x, ast.Constant) and isinstance(x.value, bytes) and len(x.value) == 1:
                out.add(x.value[0])
            else:
                return None
        return out
    return None


class _Return(Exception):
    def __init__(self, value):
        self.value = value
