"""Self-test of the checker: in-memory mutants (must be reported by the intended rule) and behaviour-preserving
variants (must stay silent).  Nothing is written to disk: the program model is loaded with an overlay.

A mutant is a textual edit of one source file of /repo's *current* tree.  If its anchor text is no longer present
(because the tree under analysis was changed) the mutant is skipped and counted as not applicable."""
import os
import sys
import time
from concurrent.futures import ProcessPoolExecutor

from . import model

B = "pymemcache/client/base.py"
H = "pymemcache/client/hash.py"
P = "pymemcache/pool.py"
S = "pymemcache/serde.py"
R = "pymemcache/client/retrying.py"
RV = "pymemcache/client/rendezvous.py"
M3 = "pymemcache/client/murmur3.py"
F = "pymemcache/fallback.py"
A = "pymemcache/client/ext/aws_ec_client.py"


def m(id, prop, rule, file, old, new, kind="fire", nth=1):
    return dict(id=id, prop=prop, rule=rule, file=file, old=old, new=new, kind=kind, nth=nth)


_SH_OLD = ("self.sock.sendall(cmd)", 'self.sock.sendall(b"".join(cmds))', 'self.sock.sendall(b"".join(cmds))', "            if e.errno != errno.EINTR:\n                raise\n")
_SH_NEW = ("_sendall(self.sock, cmd)", '_sendall(self.sock, b"".join(cmds))', '_sendall(self.sock, b"".join(cmds))')
_HB_OLD = "    def version(self) -> bytes:\n        with self.client_pool.get_and_release(destroy_on_fail=True) as client:\n            return client.version()\n"
_HB = "    def version(self) -> bytes:\n        client = self.client_pool.get()\n        try:\n            result = client.version()\n        except %s:\n            self.client_pool.%s(client)\n            raise\n        self.client_pool.release(client)\n%s        return result\n"
_CB_OLD = ("            after_remove=lambda client: client.close(),\n", "    def close(self) -> None:\n        self.client_pool.clear()\n")
_CB_NEW = ("            after_remove=self._discard_client,\n", "    def _discard_client(self, client):\n%s\n    def close(self) -> None:\n        self.client_pool.clear()\n")


def _readline_loop():
    """The loop of _readline as it stands in the analysed tree (the accumulate-and-partition variants replace it whole)."""
    try:
        from .model import REPO
        src = open(os.path.join(REPO, B)).read()
        i = src.index('    chunks: list[bytes] = []\n    last_char = b""\n')
        return src[i:src.index("def _readvalue(")]
    except (OSError, ValueError):
        return "\0 (not found)"


_RL = "    while True:\n        line, sep, rest = %s.partition(b\"\\r\\n\")\n        if sep:\n            return %s, line\n\n        chunk = _recv(sock, RECV_SIZE)\n        if not chunk:\n            raise MemcacheUnexpectedCloseError()\n        %s\n\n\n"


MUTANTS = [
    # ---------------- C01
    m("C01-store-no-close", "C01", "C01.R1", B, "            return results\n        except BaseException:\n            self.close()\n            raise\n\n    def _misc_cmd", "            return results\n        except BaseException:\n            raise\n\n    def _misc_cmd"),
    m("C01-misc-read-with-noreply", "C01", "C01.R2a", B, "            if noreply:\n                return []\n", "            if False:\n                return []\n"),
    m("C01-delete-noreply-false", "C01", "C01.R2b", B, 'results = self._misc_cmd([cmd], b"delete", noreply)', 'results = self._misc_cmd([cmd], b"delete", False)'),
    m("C01-store-read-one-fewer", "C01", "C01.R3", B, "            for key in keys:\n                try:\n                    buf, line = _readline(self.sock, buf)", "            for key in keys[1:]:\n                try:\n                    buf, line = _readline(self.sock, buf)"),
    # iterating the dict itself instead of the recorded key list reads one reply per command all the same
    m("C01-silent-store-read-values", "C01", "", B, "            for key in keys:\n                try:\n                    buf, line = _readline(self.sock, buf)", "            for key in values:\n                try:\n                    buf, line = _readline(self.sock, buf)", kind="silent"),
    m("C01-buf-on-self", "C01", "C01.R4", B, "            results = []\n            buf = b\"\"\n            line = None\n            for cmd in cmds:", "            results = []\n            buf = b\"\"\n            self._last_buf = buf\n            line = None\n            for cmd in cmds:"),
    # a module-level send helper (the three sends go through it); C01.R7 decides that it is one send
    m("C01-send-helper-retries", "C01", "C01.R7", B, _SH_OLD, _SH_NEW + ("            if e.errno != errno.EINTR:\n                raise\n\n\ndef _sendall(sock, data):\n    while True:\n        try:\n            sock.sendall(data)\n            return\n        except OSError as e:\n            if e.errno != errno.EINTR:\n                raise\n",)),
    m("C01-send-helper-swallows", "C01", "C01.R7", B, _SH_OLD, _SH_NEW + ("            if e.errno != errno.EINTR:\n                raise\n\n\ndef _sendall(sock, data):\n    try:\n        sock.sendall(data)\n    except OSError:\n        pass\n",)),
    m("C01-send-helper-twice", "C01", "C01.R7", B, _SH_OLD, _SH_NEW + ("            if e.errno != errno.EINTR:\n                raise\n\n\ndef _sendall(sock, data):\n    sock.sendall(data)\n    if len(data) > 1024:\n        sock.sendall(data)\n",)),
    m("C01-silent-send-helper", "C01", "", B, _SH_OLD, _SH_NEW + ("            if e.errno != errno.EINTR:\n                raise\n\n\ndef _sendall(sock, data):\n    try:\n        sock.sendall(data)\n    except OSError:\n        raise\n",), kind="silent"),
    # hand-made pool brackets: client_pool.get() ... release / destroy in the method itself
    m("C10-handmade-bracket-exception-only", "C10", "C10.R2", B, _HB_OLD, _HB % ("Exception", "destroy", "")),
    m("C09-handmade-bracket-releases-failed", "C09", "C09.R1", B, _HB_OLD, _HB % ("BaseException", "release", "")),
    m("C09-handmade-bracket-no-give-back", "C09", "C09.R1", B, _HB_OLD, "    def version(self) -> bytes:\n        client = self.client_pool.get()\n        return client.version()\n"),
    m("C08-handmade-bracket-late-use", "C08", "C08.R5", B, _HB_OLD, _HB % ("BaseException", "destroy", "        client.close()\n")),
    m("C08-silent-handmade-bracket", "C08", "", B, _HB_OLD, _HB % ("BaseException", "destroy", ""), kind="silent"),
    m("C09-silent-handmade-bracket", "C09", "", B, _HB_OLD, _HB % ("BaseException", "destroy", ""), kind="silent"),
    m("C10-silent-handmade-bracket", "C10", "", B, _HB_OLD, _HB % ("BaseException", "destroy", ""), kind="silent"),
    m("C16-silent-handmade-bracket", "C16", "", B, _HB_OLD, _HB % ("BaseException", "destroy", ""), kind="silent"),
    m("C07-silent-handmade-bracket", "C07", "", B, _HB_OLD, _HB % ("BaseException", "destroy", ""), kind="silent"),
    # the pool's callbacks given as methods instead of lambdas
    m("C09-after-remove-method-quits", "C09", "C09.R3", B, _CB_OLD, (_CB_NEW[0], _CB_NEW[1] % "        client.quit()\n")),
    m("C08-after-remove-method-touches-pool", "C08", "C08.R4", B, _CB_OLD, (_CB_NEW[0], _CB_NEW[1] % "        client.close()\n        self.client_pool.destroy(client)\n")),
    m("C08-silent-after-remove-method", "C08", "", B, _CB_OLD, (_CB_NEW[0], _CB_NEW[1] % "        client.close()\n"), kind="silent"),
    m("C09-silent-after-remove-method", "C09", "", B, _CB_OLD, (_CB_NEW[0], _CB_NEW[1] % "        client.close()\n"), kind="silent"),
    m("C09-silent-after-remove-unbound", "C09", "", B, "after_remove=lambda client: client.close(),", "after_remove=Client.close,", kind="silent"),
    m("C08-silent-creator-lambda", "C08", "", B, "            self._create_client,\n            after_remove", "            lambda: self._create_client(),\n            after_remove", kind="silent"),
    m("C16-silent-creator-lambda", "C16", "", B, "            self._create_client,\n            after_remove", "            lambda: self._create_client(),\n            after_remove", kind="silent"),
    # callables written as nested defs instead of lambdas
    m("C11-hash-wiring-def-drops-seed", "C11", "C11.R2", RV, "        self.hash_function = lambda x: hash_function(x, seed)\n", "        def _seeded(value):\n            return hash_function(value)\n\n        self.hash_function = _seeded\n"),
    m("C11-silent-hash-wiring-def", "C11", "", RV, "        self.hash_function = lambda x: hash_function(x, seed)\n", "        def _seeded(value):\n            return hash_function(value, seed)\n\n        self.hash_function = _seeded\n", kind="silent"),
    m("C16-getattr-def-drops-kwargs", "C16", "C16.R4", R, "        return lambda *args, **kwargs: self._retry(\n            name, self._client.__getattribute__(name), *args, **kwargs\n        )\n", "        func = getattr(self._client, name)\n\n        def call(*args, **kwargs):\n            return self._retry(name, func, *args)\n\n        return call\n"),
    m("C16-getattr-def-wrong-method", "C16", "C16.R4", R, "        return lambda *args, **kwargs: self._retry(\n            name, self._client.__getattribute__(name), *args, **kwargs\n        )\n", "        func = getattr(self._client, \"get\")\n\n        def call(*args, **kwargs):\n            return self._retry(name, func, *args, **kwargs)\n\n        return call\n"),
    m("C16-silent-getattr-def", "C16", "", R, "        return lambda *args, **kwargs: self._retry(\n            name, self._client.__getattribute__(name), *args, **kwargs\n        )\n", "        func = getattr(self._client, name)\n\n        def call(*args, **kwargs):\n            return self._retry(name, func, *args, **kwargs)\n\n        return call\n", kind="silent"),
    m("C17-silent-getattr-def", "C17", "", R, "        return lambda *args, **kwargs: self._retry(\n            name, self._client.__getattribute__(name), *args, **kwargs\n        )\n", "        func = getattr(self._client, name)\n\n        def call(*args, **kwargs):\n            return self._retry(name, func, *args, **kwargs)\n\n        return call\n", kind="silent"),
    m("C07-silent-merge-dict-call", "C07", "", H, "        end = {}\n", "        end = dict()\n", kind="silent"),
    m("C07-merge-init-none", "C07", "C07.R2", H, "        end = {}\n", "        end = None\n"),
    m("C14-rounded-end-mod-8", "C14", "C14.R3", M3, "    roundedEnd = length & 0xFFFFFFFC  # round down to 4 byte block\n", "    roundedEnd = length - length % 8\n"),
    m("C14-silent-rounded-end-arith", "C14", "", M3, ("    roundedEnd = length & 0xFFFFFFFC  # round down to 4 byte block\n", "    val = length & 0x03\n", "    if val in [2, 3]:"), ("    roundedEnd = length - length % 4\n", "    val = length % 4\n", "    if val >= 2:"), kind="silent"),
    m("C18-silent-primary-property", "C18", "", F, "    def set(self, key, value, expire=0, noreply=True):\n        self.caches[0].set(key, value, expire, noreply)\n", "    @property\n    def _primary(self):\n        return self.caches[0]\n\n    def set(self, key, value, expire=0, noreply=True):\n        self._primary.set(key, value, expire=expire, noreply=noreply)\n", kind="silent"),
    m("C18-primary-property-last", "C18", "C18.R1", F, "    def set(self, key, value, expire=0, noreply=True):\n        self.caches[0].set(key, value, expire, noreply)\n", "    @property\n    def _primary(self):\n        return self.caches[1]\n\n    def set(self, key, value, expire=0, noreply=True):\n        self._primary.set(key, value, expire=expire, noreply=noreply)\n"),
    m("C18-writer-kwargs-crossed", "C18", "C18.R1", F, "        self.caches[0].touch(key, expire, noreply)\n", "        primary = self.caches[0]\n        primary.touch(key, expire=noreply, noreply=expire)\n"),
    m("C07-handler-returns-none-via-local", "C07", "C07.R2", H, "            if not self.ignore_exc:\n                raise\n\n            return default_val\n        except Exception:", "            if not self.ignore_exc:\n                raise\n            result = None\n            return result\n        except Exception:"),
    m("C07-silent-handler-local", "C07", "", H, "            if not self.ignore_exc:\n                raise\n\n            return default_val\n        except Exception:", "            if not self.ignore_exc:\n                raise\n            result = default_val\n            return result\n        except Exception:", kind="silent"),
    # _readline as accumulate-and-partition (what _readsegment does): right, searching the newest piece only, dropping the rest
    m("C03-silent-readline-partition", "C03", "", B, _readline_loop(), _RL % ("buf", "rest", "buf += chunk"), kind="silent"),
    m("C01-silent-readline-partition", "C01", "", B, _readline_loop(), _RL % ("buf", "rest", "buf += chunk"), kind="silent"),
    m("C03-readline-partition-newest-piece", "C03", "C03.R6", B, _readline_loop(), "    chunks = []\n" + _RL % ("buf", "rest", "chunks.append(buf)\n        buf = chunk")),
    m("C03-readline-partition-drops-rest", "C03", "C03.R1", B, _readline_loop(), _RL % ("buf", "b\"\"", "buf += chunk")),
    # reply tables built or completed by statements (Module.const interprets the module's top-level statements)
    m("C05-table-entry-overwritten-by-statement", "C05", "C05.R1", B, "    b\"EXISTS\": False,\n}\n", "    b\"EXISTS\": False,\n}\nSTORE_RESULTS_VALUE[b\"EXISTS\"] = None\n"),
    m("C05-valid-results-updated-by-statement", "C05", "C05.R1", B, "    b\"cas\": (b\"STORED\", b\"EXISTS\", b\"NOT_FOUND\"),\n}\n", "    b\"cas\": (b\"STORED\", b\"EXISTS\", b\"NOT_FOUND\"),\n}\nVALID_STORE_RESULTS.update({b\"add\": (b\"STORED\",)})\n"),
    m("C05-silent-tables-built-by-statements", "C05", "", B, ("STORE_RESULTS_VALUE = {\n    b\"STORED\": True,\n    b\"NOT_STORED\": False,\n    b\"NOT_FOUND\": None,\n    b\"EXISTS\": False,\n}\n",), ("STORE_RESULTS_VALUE = dict([(b\"STORED\", True), (b\"NOT_STORED\", False)])\nSTORE_RESULTS_VALUE[b\"NOT_FOUND\"] = None\nSTORE_RESULTS_VALUE.update({b\"EXISTS\": False})\n",), kind="silent"),
    m("C04-silent-tables-built-by-statements", "C04", "", B, ("STORE_RESULTS_VALUE = {\n    b\"STORED\": True,\n    b\"NOT_STORED\": False,\n    b\"NOT_FOUND\": None,\n    b\"EXISTS\": False,\n}\n",), ("STORE_RESULTS_VALUE = dict([(b\"STORED\", True), (b\"NOT_STORED\", False)])\nSTORE_RESULTS_VALUE[b\"NOT_FOUND\"] = None\nSTORE_RESULTS_VALUE.update({b\"EXISTS\": False})\n",), kind="silent"),
    # another clock: fine when it is the only one, wrong when its readings are compared with those of time.time()
    m("C13-silent-monotonic-clock", "C13", "", H, ("time.time()",) * 8, ("time.monotonic()",) * 8, kind="silent"),
    m("C07-silent-monotonic-clock", "C07", "", H, ("time.time()",) * 8, ("time.monotonic()",) * 8, kind="silent"),
    m("C13-mixed-clocks", "C13", "C13.R1", H, '"failed_time": time.time(),', '"failed_time": time.monotonic(),'),
    m("C01-misc-handler-oserror-only", "C01", "C01.R1", B, "            return results\n\n        except BaseException:\n            self.close()\n            raise", "            return results\n\n        except OSError:\n            self.close()\n            raise"),
    m("C01-silent-close-alias", "C01", "", B, "        except BaseException:\n            self.close()\n            raise\n\n    def __setitem__", "        except BaseException:\n            self.disconnect_all()\n            raise\n\n    def __setitem__", kind="silent"),
    m("C01-raw-command-drops-end-token", "C01", "C01.R8", B, 'return self._misc_cmd([b"" + command + b"\\r\\n"], command, False, end_tokens)[0]', 'return self._misc_cmd([b"" + command + b"\\r\\n"], command, False)[0]'),
    m("C01-misc-truncates-end-token", "C01", "C01.R8", B, "            _reader = partial(_readsegment, end_tokens=end_tokens)\n", "            _reader = partial(_readsegment, end_tokens=end_tokens[:-2])\n"),
    m("C19-raw-command-drops-end-token", "C19", "C19.R7", B, 'return self._misc_cmd([b"" + command + b"\\r\\n"], command, False, end_tokens)[0]', 'return self._misc_cmd([b"" + command + b"\\r\\n"], command, False)[0]'),
    m("C01-silent-misc-reader-positional", "C01", "", B, "            _reader = partial(_readsegment, end_tokens=end_tokens)\n", "            _reader = lambda sock, buf: _readsegment(sock, buf, end_tokens)\n", kind="silent"),
    # ---------------- C02
    m("C02-incr-unchecked", "C02", "C02.R1", B, 'val = self._check_integer(value, "value")\n        cmd = b"incr "', 'val = str(value).encode(self.encoding)\n        cmd = b"incr "'),
    m("C02-check-after-connect", "C02", "C02.R2", B, "        expire_bytes = self._check_integer(expire, \"expire\")\n\n        for key, data in values.items():", "        if self.sock is None:\n            self._connect()\n        expire_bytes = self._check_integer(expire, \"expire\")\n\n        for key, data in values.items():"),
    m("C02-check-integer-accepts-str", "C02", "C02.R4", B, "        if not isinstance(value, int):\n            raise MemcacheIllegalInputError(", "        if not isinstance(value, (int, str)):\n            raise MemcacheIllegalInputError("),
    m("C02-cas-no-digit-check", "C02", "C02.R4", B, "        if not cas.isdigit():", "        if False and not cas.isdigit():"),
    m("C02-silent-join-style", "C02", "", B, 'cmd = b"touch " + key + b" " + expire_bytes', 'cmd = b" ".join([b"touch", key, expire_bytes])', kind="silent"),
    # ---------------- C03
    m("C03-drop-append", "C03", "C03.R1", B, "        if buf:\n            rlen -= len(buf)\n            chunks.append(buf)\n", "        if buf:\n            rlen -= len(buf)\n"),
    m("C03-reset-buf", "C03", "C03.R1", B, "                    buf, line = _readline(self.sock, buf)\n                except MemcacheUnexpectedCloseError:\n                    self.close()\n                    raise\n                self._raise_errors(line, name)\n                if line == b\"END\"", "                    buf, line = _readline(self.sock, b\"\")\n                except MemcacheUnexpectedCloseError:\n                    self.close()\n                    raise\n                self._raise_errors(line, name)\n                if line == b\"END\""),
    m("C03-eintr-empty", "C03", "C03.R2", B, "            if e.errno != errno.EINTR:\n                raise\n", "            if e.errno != errno.EINTR:\n                raise\n            return b\"\"\n"),
    m("C03-recvsize-logic", "C03", "C03.R3", B, "        if not buf:\n            raise MemcacheUnexpectedCloseError()\n\n\ndef _readvalue", "        if len(buf) < RECV_SIZE and not buf:\n            raise MemcacheUnexpectedCloseError()\n\n\ndef _readvalue"),
    m("C03-segment-newest-only", "C03", "C03.R4", B, "        chunk = _recv(sock, RECV_SIZE)\n        if not chunk:\n            raise MemcacheUnexpectedCloseError()\n        buf += chunk\n", "        result += buf\n        buf = _recv(sock, RECV_SIZE)\n        if not buf:\n            raise MemcacheUnexpectedCloseError()\n"),
    m("C03-rstrip", "C03", "C03.R5", B, "        chunks[-1] = chunks[-1][:-1]\n    else:\n        # Just remove", "        chunks[-1] = chunks[-1].rstrip(b\"\\r\")\n    else:\n        # Just remove"),
    m("C03-silent-buf-plus", "C03", "", B, "        buf += chunk\n", "        buf = buf + chunk\n", kind="silent"),
    # the byte arithmetic of the readers (C03.R6: segmentation rows on exact byte strings)
    m("C03-readline-straddle-keeps-cr", "C03", "C03.R6", B, "            chunks[-1] = chunks[-1][:-1]\n            return buf[1:], b\"\".join(chunks)", "            return buf[1:], b\"\".join(chunks)"),
    m("C03-readline-straddle-after-find", "C03", "C03.R6", B, "        if last_char == b\"\\r\" and buf[0:1] == b\"\\n\":\n", "        if last_char == b\"\\r\" and buf[0:1] == b\"\\n\" and buf.find(b\"\\r\\n\") == -1:\n"),
    m("C03-readvalue-straddle-case-off", "C03", "C03.R6", B, "    if rlen == 1:\n", "    if rlen == 0:\n"),
    m("C03-readvalue-loop-one-more", "C03", "C03.R6", B, "    while rlen - len(buf) > 0:\n", "    while rlen - len(buf) >= 0:\n"),
    m("C03-readvalue-leftover-keeps-lf", "C03", "C03.R6", B, "    return buf[rlen:], b\"\".join(chunks)", "    return buf[rlen - 1 :], b\"\".join(chunks)"),
    m("C03-readsegment-leftover-short-token", "C03", "C03.R6", B, "buf[tokens_pos + len(end_tokens) :]", "buf[tokens_pos + 2 :]"),
    m("C03-readline-no-hangup-test", "C03", "C03.R6", B, "        buf = _recv(sock, RECV_SIZE)\n        if not buf:\n            raise MemcacheUnexpectedCloseError()\n\n\ndef _readvalue", "        buf = _recv(sock, RECV_SIZE)\n\n\ndef _readvalue"),
    m("C03-silent-readvalue-count-up", "C03", "", B, "    while rlen - len(buf) > 0:\n", "    while len(buf) < rlen:\n", kind="silent"),
    m("C03-silent-readline-lastchar-always", "C03", "", B, "        if buf:\n            chunks.append(buf)\n            last_char = buf[-1:]\n", "        if buf:\n            chunks.append(buf)\n        last_char = buf[-1:] or last_char\n", kind="silent"),
    # ---------------- C04
    m("C04-len-before-encode", "C04", "C04.R1", B, ("            if not isinstance(data, bytes):\n                try:\n                    data = str(data).encode(self.encoding)", "                + str(len(data)).encode(self.encoding)"), ("            data_len = len(data)\n            if not isinstance(data, bytes):\n                try:\n                    data = str(data).encode(self.encoding)", "                + str(data_len).encode(self.encoding)")),
    m("C04-get-no-prefix", "C04", "C04.R4", B, 'return self._fetch_cmd(b"get", [key], False, key_prefix=self.key_prefix).get(', 'return self._fetch_cmd(b"get", [key], False, key_prefix=b"").get('),
    m("C04-deserialize-wire-key", "C04", "C04.R3", B, "value = self.serde.deserialize(original_key, value, int(flags))", "value = self.serde.deserialize(key, value, int(flags))"),
    m("C04-keys-twice", "C04", "C04.R2", B, "        keys = list(keys)\n        prefixed_keys", "        prefixed_keys"),
    m("C04-get-or-default", "C04", "C04.R3", B, "        return self._fetch_cmd(b\"get\", [key], False, key_prefix=self.key_prefix).get(\n            key, default\n        )", "        return self._fetch_cmd(b\"get\", [key], False, key_prefix=self.key_prefix).get(\n            key\n        ) or default"),
    # ---------------- C05
    m("C05-exists-true", "C05", "C05.R1", B, 'b"EXISTS": False,', 'b"EXISTS": True,'),
    m("C05-replace-sends-add", "C05", "C05.R2", B, 'b"replace", {key: value}, expire, noreply, flags=flags', 'b"add", {key: value}, expire, noreply, flags=flags'),
    m("C05-touch-token", "C05", "C05.R3", B, 'return results[0] == b"TOUCHED"', 'return results[0] == b"TOUCH"'),
    m("C05-incr-default-none", "C05", "C05.R4", B, "        self, key: Key, value: int, noreply: Optional[bool] = False\n    ) -> Optional[int]:\n        \"\"\"\n        The memcached \"incr\"", "        self, key: Key, value: int, noreply: Optional[bool] = None\n    ) -> Optional[int]:\n        \"\"\"\n        The memcached \"incr\""),
    m("C05-gets-no-cas", "C05", "C05.R2", B, 'self._fetch_cmd(b"gets", keys, True, key_prefix=self.key_prefix)', 'self._fetch_cmd(b"gets", keys, False, key_prefix=self.key_prefix)'),
    m("C05-server-error-not-raised", "C05", "C05.R5", B, '        if line.startswith(b"SERVER_ERROR"):', '        if line.startswith(b"SERVER_ERR0R"):'),
    m("C05-misc-no-error-check", "C05", "C05.R5", B, "                self._raise_errors(line, cmd_name)\n                results.append(line)", "                results.append(line)"),
    # appending to the local list before the error test changes nothing a caller can observe (the list dies with the raise)
    m("C05-silent-append-before-check", "C05", "", B, "                self._raise_errors(line, cmd_name)\n                results.append(line)", "                results.append(line)\n                self._raise_errors(line, cmd_name)", kind="silent"),
    m("C05-touch-ignores-default-noreply", "C05", "C05.R4", B, "        if noreply is None:\n            noreply = self.default_noreply\n        key = self.check_key(key, self.key_prefix)\n        expire_bytes = self._check_integer(expire, \"expire\")", "        if noreply is None:\n            noreply = False\n        key = self.check_key(key, self.key_prefix)\n        expire_bytes = self._check_integer(expire, \"expire\")"),
    m("C05-store-noreply-false", "C05", "C05.R4", B, "                return {k: True for k in keys}", "                return {k: False for k in keys}"),
    m("C05-store-keyed-by-wire-key", "C05", "C05.R3", B, "            keys.append(key)\n\n            key = self.check_key(key, self.key_prefix)", "            key = self.check_key(key, self.key_prefix)\n            keys.append(key)"),
    m("C05-silent-delete-ne", "C05", "", B, 'return results[0] == b"DELETED"', 'return results[0] != b"NOT_FOUND"', kind="silent"),
    # ---------------- C06
    m("C06-no-close-on-connect-failure", "C06", "C06.R1", B, "        except Exception:\n            sock.close()\n            raise\n\n        self.sock = sock", "        except Exception:\n            raise\n\n        self.sock = sock"),
    m("C06-swap-timeouts", "C06", "C06.R3", B, "            sock.settimeout(self.connect_timeout)\n            if self.socket_keepalive is not None:", "            sock.settimeout(self.timeout)\n            if self.socket_keepalive is not None:"),
    m("C06-assign-before-connect", "C06", "C06.R1", B, "        try:\n            sock.settimeout(self.connect_timeout)", "        self.sock = sock\n        try:\n            sock.settimeout(self.connect_timeout)"),
    m("C06-no-leading-close", "C06", "C06.R2", B, "    def _connect(self) -> None:\n        self.close()\n", "    def _connect(self) -> None:\n"),
    m("C06-stale-error", "C06", "C06.R1", B, "                else:\n                    error = None\n                    break", "                else:\n                    break"),
    m("C06-no-tls-wrap", "C06", "C06.R4", B, "                    if self.tls_context:\n                        context = self.tls_context\n                        sock = context.wrap_socket(sock, server_hostname=host)\n", ""),
    m("C06-close-not-in-finally", "C06", "C06.R6", B, "            except Exception:\n                pass\n            finally:\n                self.sock = None", "                self.sock = None\n            except Exception:\n                pass"),
    m("C06-no-lazy-connect", "C06", "C06.R5", B, "        if self.sock is None:\n            self._connect()\n\n            # For typing\n            assert self.sock is not None\n\n        try:\n            self.sock.sendall(b\"\".join(cmds))\n\n            if noreply:\n                return []", "        try:\n            self.sock.sendall(b\"\".join(cmds))\n\n            if noreply:\n                return []"),
    # ---------------- C07
    m("C07-fetch-swallows-known-errors-only", "C07", "C07.R5", B, "                    raise MemcacheUnknownError(line[:32])\n        except Exception:\n            self.close()\n            if self.ignore_exc:\n                return {}\n            raise", "                    raise MemcacheUnknownError(line[:32])\n        except (OSError, MemcacheUnknownError, MemcacheClientError, MemcacheServerError, MemcacheUnknownCommandError, MemcacheUnexpectedCloseError):\n            self.close()\n            if self.ignore_exc:\n                return {}\n            raise\n        except Exception:\n            self.close()\n            raise"),
    m("C07-pooled-get-none", "C07", "C07.R2", B, "                return client.get(key, default)\n            except Exception:\n                if self.ignore_exc:\n                    return default", "                return client.get(key, default)\n            except Exception:\n                if self.ignore_exc:\n                    return None"),
    m("C07-hash-get-many-none", "C07", "C07.R2", H, "result = self._safely_run_func(client, get_func, {}, *new_args, **kwargs)", "result = self._safely_run_func(client, get_func, None, *new_args, **kwargs)"),
    m("C07-connect-outside-try", "C07", "C07.R3", B, "        try:\n            if self.sock is None:\n                self._connect()\n\n                # For typing\n                assert self.sock is not None\n\n            self.sock.sendall(cmd)", "        if self.sock is None:\n            self._connect()\n        try:\n            self.sock.sendall(cmd)"),
    m("C07-return-partial", "C07", "C07.R5", B, "            self.close()\n            if self.ignore_exc:\n                return {}\n            raise", "            self.close()\n            if self.ignore_exc:\n                return result\n            raise"),
    # ---------------- C08
    m("C08-release-unlocked", "C08", "C08.R1", P, "    def release(self, obj, silent=True) -> None:\n        with self._lock:\n            try:\n                self._used_objs.remove(obj)\n                self._free_objs.append(obj)\n                obj._last_used = self._idle_clock()\n            except ValueError:\n                if not silent:\n                    raise", "    def release(self, obj, silent=True) -> None:\n        try:\n            self._used_objs.remove(obj)\n            self._free_objs.append(obj)\n            obj._last_used = self._idle_clock()\n        except ValueError:\n            if not silent:\n                raise"),
    m("C08-create-outside-lock", "C08", "C08.R2", P, "                obj = self._obj_creator()\n\n            self._used_objs.append(obj)\n            obj._last_used = now\n            return obj", "                obj = None\n            if obj is not None:\n                self._used_objs.append(obj)\n                obj._last_used = now\n                return obj\n        obj = self._obj_creator()\n        with self._lock:\n            self._used_objs.append(obj)\n            obj._last_used = now\n            return obj"),
    m("C08-destroy-always-closes", "C08", "C08.R3", P, "        if was_dropped and self._after_remove is not None:", "        if self._after_remove is not None:"),
    m("C08-client-escapes", "C08", "C08.R5", B, "        with self.client_pool.get_and_release(destroy_on_fail=True) as client:\n            return client.version()", "        with self.client_pool.get_and_release(destroy_on_fail=True) as client:\n            self._last_client = client\n            return client.version()"),
    m("C08-get-creates-outside-hold", "C08", "C08.R2", P, "                obj = self._obj_creator()\n\n            self._used_objs.append(obj)\n            obj._last_used = now\n            return obj\n", "                obj = None\n\n            if obj is not None:\n                self._used_objs.append(obj)\n                obj._last_used = now\n                return obj\n        obj = self._obj_creator()\n        obj._last_used = now\n        with self._lock:\n            self._used_objs.append(obj)\n        return obj\n"),
    # ---------------- C09
    m("C09-destroy-on-fail-false", "C09", "C09.R1", B, "        with self.client_pool.get_and_release(destroy_on_fail=True) as client:\n            return client.set(key, value", "        with self.client_pool.get_and_release(destroy_on_fail=False) as client:\n            return client.set(key, value"),
    m("C09-double-release", "C09", "C09.R2", P, "            raise\n        self.release(obj)\n", "            raise\n        finally:\n            self.release(obj)\n        self.release(obj)\n"),
    m("C09-inner-ignore-exc", "C09", "C09.R3", B, "            ignore_exc=False,\n            socket_module=self.socket_module,", "            ignore_exc=self.ignore_exc,\n            socket_module=self.socket_module,"),
    m("C09-idle-reversed", "C09", "C09.R4", P, "if now - obj._last_used <= self.idle_timeout:", "if now - obj._last_used >= self.idle_timeout:"),
    m("C09-no-stamp", "C09", "C09.R4", P, "                self._free_objs.append(obj)\n                obj._last_used = self._idle_clock()\n", "                self._free_objs.append(obj)\n"),
    m("C09-quit-no-destroy", "C09", "C09.R6", B, "            try:\n                client.quit()\n            finally:\n                self.client_pool.destroy(client)", "            client.quit()\n            self.client_pool.destroy(client)"),
    # ---------------- C10
    m("C10-fetch-exception-only", "C10", "C10.R1", B, "        except BaseException:\n            # KeyboardInterrupt, SystemExit, gevent.Timeout, ...: the reply may\n            # be unread, so the connection must not be reused.\n            self.close()\n            raise\n", ""),
    m("C10-store-exception-only", "C10", "C10.R1", B, "            return results\n        except BaseException:\n            self.close()\n            raise\n\n    def _misc_cmd", "            return results\n        except Exception:\n            self.close()\n            raise\n\n    def _misc_cmd"),
    m("C10-pool-exception-only", "C10", "C10.R2", P, "            yield obj\n        except BaseException:", "            yield obj\n        except Exception:"),
    m("C10-close-sock-kept", "C10", "C10.R4", B, "            except Exception:\n                pass\n            finally:\n                self.sock = None", "                self.sock = None\n            except Exception:\n                pass"),
    m("C10-silent-try-finally", "C10", "", P, "        try:\n            yield obj\n        except BaseException:\n            if not destroy_on_fail:\n                self.release(obj)\n            else:\n                self.destroy(obj)\n            raise\n        self.release(obj)", "        ok = False\n        try:\n            yield obj\n            ok = True\n        finally:\n            if ok or not destroy_on_fail:\n                self.release(obj)\n            else:\n                self.destroy(obj)", kind="silent"),
    # ---------------- C11
    m("C11-ge", "C11", "C11.R3", RV, "if score > high_score:", "if score >= high_score:"),
    m("C11-min", "C11", "C11.R3", RV, "max(str(node), str(winner))", "min(str(node), str(winner))"),
    m("C11-no-tie-arm", "C11", "C11.R3", RV, "            elif score == high_score:\n                (high_score, winner) = (score, max(str(node), str(winner)))\n", ""),
    m("C11-hash-index", "C11", "C11.R2", RV, 'self.hash_function(f"{node}-{key}")', 'self.hash_function(f"{len(self.nodes)}-{node}-{key}")'),
    m("C11-no-membership", "C11", "C11.R4", RV, "        if node not in self.nodes:\n            self.nodes.append(node)", "        self.nodes.append(node)"),
    m("C11-uses-hash", "C11", "C11.R1", RV, "score = self.hash_function(f\"{node}-{key}\")", "score = self.hash_function(f\"{node}-{key}\") ^ hash(node)"),
    # ---------------- C12
    m("C12-route-prefixed", "C12", "C12.R2", H, "        check_key_helper(server_key, self.allow_unicode_keys, self.key_prefix)\n", "        server_key = check_key_helper(server_key, self.allow_unicode_keys, self.key_prefix)\n"),
    m("C12-batch-by-id", "C12", "C12.R4", H, "client_batches[client.server].append(key)", "client_batches[id(client)].append(key)"),
    m("C12-no-update", "C12", "C12.R4", H, "            end.update(result)\n", "            pass\n"),
    m("C12-forward-tuple", "C12", "C12.R2", H, "            server_key, key = key\n", "            server_key, _ = key\n"),
    m("C12-rebind-batch", "C12", "C12.R3", H, "client_batches[client.server][key] = value", "client_batches[client.server] = {key: value}"),
    # ---------------- C13
    m("C13-le-attempts", "C13", "C13.R2", H, 'if failed_metadata["attempts"] < self.retry_attempts:\n                    failed_time = failed_metadata["failed_time"]\n                    if time.time() - failed_time > self.retry_timeout:\n                        logger.debug("retrying failed server: %s", client.server)\n                        result', 'if failed_metadata["attempts"] <= self.retry_attempts:\n                    failed_time = failed_metadata["failed_time"]\n                    if time.time() - failed_time > self.retry_timeout:\n                        logger.debug("retrying failed server: %s", client.server)\n                        result'),
    m("C13-time-reversed", "C13", "C13.R1", H, "if time.time() - failed_time > self.retry_timeout:\n                        logger.debug(\"retrying failed server: %s\", client.server)\n                        result", "if time.time() - failed_time < self.retry_timeout:\n                        logger.debug(\"retrying failed server: %s\", client.server)\n                        result"),
    m("C13-no-mark", "C13", "C13.R1", H, "        except OSError:\n            self._mark_failed_server(client.server)\n\n            # if we haven't enabled ignore_exc, don't move on gracefully, just\n            # raise the exception\n            if not self.ignore_exc:\n                raise\n\n            return default_val", "        except OSError:\n            if not self.ignore_exc:\n                raise\n\n            return default_val"),
    m("C13-no-forget", "C13", "C13.R1", H, "                        self._failed_clients.pop(client.server)\n                        return result", "                        return result"),
    m("C13-dead-no-del", "C13", "C13.R4", H, "                del self._dead_clients[server]\n", ""),
    m("C13-failed-time-kept", "C13", "C13.R3", H, '            failed_metadata["failed_time"] = time.time()\n', ""),
    # ---------------- C14
    m("C14-c1", "C14", "C14.R3", M3, "0xCC9E2D51", "0xCC9E2D50"),
    m("C14-rot", "C14", "C14.R3", M3, "(k1 << 15) | ((k1 & 0xFFFFFFFF) >> 17)  # ROTL32(k1,15)\n        k1 *= c2\n\n        h1", "(k1 << 16) | ((k1 & 0xFFFFFFFF) >> 16)\n        k1 *= c2\n\n        h1"),
    m("C14-dropmask", "C14", "C14.R1", M3, "h1 ^= (h1 & 0xFFFFFFFF) >> 13", "h1 ^= h1 >> 13"),
    m("C14-swaptail", "C14", "C14.R3", M3, "(ord(data[roundedEnd + 2]) & 0xFF) << 16", "(ord(data[roundedEnd + 2]) & 0xFF) << 8"),
    m("C14-mul4", "C14", "C14.R3", M3, "h1 * 5 + 0xE6546B64", "h1 * 4 + 0xE6546B64"),
    m("C14-range", "C14", "C14.R3", M3, "range(0, roundedEnd, 4)", "range(0, roundedEnd - 1, 4)"),
    m("C14-bigendian", "C14", "C14.R3", M3, "(ord(data[i]) & 0xFF)\n", "(ord(data[i + 3]) & 0xFF)\n"),
    m("C14-final-nomask", "C14", "C14.R1", M3, "return h1 & 0xFFFFFFFF", "return h1"),
    m("C14-silent-plus-for-or", "C14", "", M3, "| ((ord(data[i + 1]) & 0xFF) << 8)", "+ ((ord(data[i + 1]) & 0xFF) << 8)", kind="silent"),
    m("C14-silent-ge", "C14", "", M3, "if val in [1, 2, 3]:", "if val >= 1:", kind="silent"),
    # ---------------- C15
    m("C15-flag-collide", "C15", "C15.R1", S, "FLAG_TEXT = 1 << 4", "FLAG_TEXT = 1 << 1"),
    m("C15-isinstance-int", "C15", "C15.R3", S, "    elif value_type is int:", "    elif isinstance(value, int):"),
    m("C15-latin", "C15", "C15.R2", S, 'return value.decode("utf8")', 'return value.decode("latin-1")'),
    m("C15-flag17", "C15", "C15.R1", S, "FLAG_TEXT = 1 << 4", "FLAG_TEXT = 1 << 17"),
    m("C15-decompress-wrong-bit", "C15", "C15.R5", S, "        if flags & FLAG_COMPRESSED:\n            value = self._decompress(value)\n", "        if flags & FLAG_TEXT:\n            value = self._decompress(value)\n"),
    m("C15-pickle-version-dropped", "C15", "C15.R6", S, "    return partial(_python_memcache_serializer, pickle_version=pickle_version)", "    return partial(_python_memcache_serializer, pickle_version=DEFAULT_PICKLE_VERSION)"),
    m("C15-flag-both", "C15", "C15.R5", S, "            if len(old_value) < len(value):\n                value = old_value\n            else:\n                flags |= FLAG_COMPRESSED", "            flags |= FLAG_COMPRESSED\n            if len(old_value) < len(value):\n                value = old_value"),
    m("C15-int-str", "C15", "C15.R4", S, 'value = b"%d" % value', 'value = "%d" % value'),
    m("C15-silent-and-order", "C15", "", S, "        if len(value) > self._min_compress_len > 0:", "        if self._min_compress_len > 0 and len(value) > self._min_compress_len:", kind="silent"),
    m("C15-encode-errors-replace", "C15", "C15.R3", S, "        value = value.encode(\"utf8\")\n", "        value = value.encode(\"utf8\", \"replace\")\n"),
    m("C15-decode-errors-ignore", "C15", "C15.R2", S, "        return value.decode(\"utf8\")\n", "        return value.decode(\"utf8\", errors=\"ignore\")\n"),
    m("C15-default-deserialize-falsy-none", "C15", "C15.R8", S, "    def _default_deserialize(self, key, value, flags):\n        return value\n", "    def _default_deserialize(self, key, value, flags):\n        return value or None\n"),
    m("C15-default-serialize-flags-one", "C15", "C15.R8", S, "    def _default_serialize(self, key, value):\n        return value, 0\n", "    def _default_serialize(self, key, value):\n        return value, 1\n"),
    m("C15-silent-decompress-clears-bit", "C15", "", S, "            value = self._decompress(value)\n", "            value = self._decompress(value)\n            flags ^= FLAG_COMPRESSED\n", kind="silent"),
    m("C15-silent-default-serde-ifexp", "C15", "", S, "        self.serialize = serializer_func or self._default_serialize\n", "        self.serialize = self._default_serialize if serializer_func is None else serializer_func\n", kind="silent"),
    m("C15-compress-failure-swallowed", "C15", "C15.R5", S, "            value = self._compress(value)\n", "            try:\n                value = self._compress(value)\n            except Exception:\n                pass\n"),
    m("C15-silent-compress-failure-reraised", "C15", "", S, "            value = self._compress(value)\n", "            try:\n                value = self._compress(value)\n            except Exception:\n                raise\n", kind="silent"),
    # ---------------- C16
    m("C16-drop-flags", "C16", "C16.R2", B, "            return client.add(key, value, expire=expire, noreply=noreply, flags=flags)", "            return client.add(key, value, expire=expire, noreply=noreply)"),
    m("C16-drop-default-noreply", "C16", "C16.R3", H, '            "default_noreply": default_noreply,\n', ""),
    m("C16-run-cmd-add-in-replace", "C16", "C16.R2", H, 'return self._run_cmd("replace", key, False, *args, **kwargs)', 'return self._run_cmd("add", key, False, *args, **kwargs)'),
    m("C16-retrying-strip-kwargs", "C16", "C16.R4", R, "            name, self._client.__getattribute__(name), *args, **kwargs\n", "            name, self._client.__getattribute__(name), *args\n"),
    m("C16-no-encoding", "C16", "C16.R3", B, "            encoding=self.encoding,\n            tls_context=self.tls_context,\n        )", "            tls_context=self.tls_context,\n        )"),
    m("C16-pooled-raw-serde", "C16", "C16.R3", B, "        self.serde = serde or LegacyWrappingSerde(serializer, deserializer)", "        self.serde = serde", nth=2),
    m("C16-pooled-deserializer-dropped", "C16", "C16.R3", B, "        self.serde = serde or LegacyWrappingSerde(serializer, deserializer)", "        self.serde = serde or LegacyWrappingSerde(serializer, None)", nth=2),
    m("C16-silent-positional", "C16", "", B, "            return client.delete(key, noreply=noreply)", "            return client.delete(key, noreply)", kind="silent"),
    # ---------------- C17
    m("C17-gt", "C17", "C17.R2", R, "attempt >= self._attempts - 1", "attempt > self._attempts - 1"),
    m("C17-and", "C17", "C17.R2", R, "                    or (self._retry_for and not isinstance(exc, self._retry_for))", "                    and (self._retry_for and not isinstance(exc, self._retry_for))"),
    m("C17-sleep-first", "C17", "C17.R3", R, "            except Exception as exc:\n", "            except Exception as exc:\n                sleep(self._retry_delay)\n"),
    m("C17-attempts-lt-0", "C17", "C17.R5", R, "        if attempts < 1:", "        if attempts < 0:"),
    m("C17-range-plus-1", "C17", "C17.R1", R, "for attempt in range(self._attempts):", "for attempt in range(self._attempts + 1):"),
    m("C17-silent-demorgan", "C17", "", R, "                    or name not in self._client_dir\n                ):\n                    raise exc", "                    or not (name in self._client_dir)\n                ):\n                    raise exc", kind="silent"),
    # ---------------- C18
    m("C18-caches1", "C18", "C18.R1", F, "        self.caches[0].set(key, value, expire, noreply)", "        self.caches[1].set(key, value, expire, noreply)"),
    m("C18-reversed", "C18", "C18.R2", F, "    def get(self, key):\n        for cache in self.caches:", "    def get(self, key):\n        for cache in reversed(self.caches):"),
    m("C18-no-early-return", "C18", "C18.R2", F, "            result = cache.get_many(keys)\n            if result:\n                return result\n        return []", "            result = cache.get_many(keys)\n        return result"),
    m("C18-swap-args", "C18", "C18.R1", F, "        self.caches[0].cas(key, value, cas, expire, noreply)", "        self.caches[0].cas(key, value, expire, cas, noreply)"),
    # ---------------- C19
    m("C19-no-close-loop", "C19", "C19.R3", A, "        for client in old_clients.values():\n            client.close()\n", ""),
    m("C19-index0", "C19", "C19.R4", A, "(server[self._use_vpc], server[2])", "(server[0], server[2])"),
    m("C19-no-raise", "C19", "C19.R1", A, "                client.server,\n            )\n            raise\n", "                client.server,\n            )\n"),
    m("C19-no-hasher-reset", "C19", "C19.R2", A, "        for key in old_clients:\n            try:\n                self.hasher.remove_node(key)\n            except ValueError:\n                # already out of rotation (evicted as dead)\n                pass\n", ""),
    m("C19-wrong-token", "C19", "C19.R5", A, 'end_tokens=b"\\n\\r\\nEND\\r\\n",', 'end_tokens=b"\\r\\nEND\\r\\n",'),
    m("C19-error-handler-reads-socket", "C19", "C19.R1", A, "                client.server,\n            )\n            raise\n", "                client.sock.getpeername(),\n            )\n            raise\n"),
    m("C19-error-handler-returns-empty", "C19", "C19.R1", A, "                client.server,\n            )\n            raise\n", "                client.server,\n            )\n            return []\n"),
    # ---------------- C20
    m("C20-ge-250", "C20", "C20.R1", B, "    if len(key) > 250:", "    if len(key) >= 250:"),
    m("C20-len-before-prefix", "C20", "C20.R1", B, "    key = key_prefix + key\n    parts = key.split()\n\n    if len(key) > 250:", "    too_long = len(key) > 250\n    key = key_prefix + key\n    parts = key.split()\n\n    if too_long:"),
    m("C20-no-nul", "C20", "C20.R1", B, '    elif b"\\00" in key:', '    elif False and b"\\00" in key:'),
    m("C20-valueerror", "C20", "C20.R4", B, '        raise MemcacheIllegalInputError("Key is too long: %r" % key)', '        raise ValueError("Key is too long: %r" % key)'),
    m("C20-pooled-no-prefix", "C20", "C20.R5", B, "            key, allow_unicode_keys=self.allow_unicode_keys, key_prefix=self.key_prefix\n", "            key, allow_unicode_keys=self.allow_unicode_keys\n"),
    m("C20-message-decodes-slice", "C20", "C20.R4", B, '        raise MemcacheIllegalInputError("Key is too long: %r" % key)', '        raise MemcacheIllegalInputError("Key is too long: %s..." % key[:60].decode("utf8"))'),
    m("C20-silent-message-decodes-replace", "C20", "", B, '        raise MemcacheIllegalInputError("Key is too long: %r" % key)', '        raise MemcacheIllegalInputError("Key is too long: %s..." % key[:60].decode("utf8", "replace"))', kind="silent"),
    m("C20-silent-strip-form", "C20", "", B, '    elif len(parts) > 1 or (parts[0] if parts else b"") != key:', "    elif len(parts) != 1 or parts[0] != key:", kind="silent"),
]


def _apply(src, mu):
    olds = mu["old"] if isinstance(mu["old"], (tuple, list)) else [mu["old"]]
    news = mu["new"] if isinstance(mu["new"], (tuple, list)) else [mu["new"]]
    for o, n in zip(olds, news):
        nth = mu.get("nth", 1)
        if src.count(o) < nth:
            return None
        at = -1
        for _ in range(nth):
            at = src.index(o, at + 1)
        src = src[:at] + n + src[at + len(o):]
    return src


def _baseline_keys(prop, root):
    from .main import run_property

    try:
        code, chk = run_property(prop, "quick", 0, root=root, write=False)
        return {f.key for f in chk.findings()}
    except model.AnalysisError:
        return None


def run_mutant(args):
    mu, root = args[0], args[1]
    variant = args[2] if len(args) > 2 else None
    from .main import run_property

    path = os.path.join(root or model.REPO, mu["file"])
    try:
        src = open(path, encoding="utf8").read()
    except OSError:
        return mu["id"], "skipped", []
    new = _apply(src, mu)
    if new is None:
        return mu["id"], "skipped", []
    try:
        compile(new, mu["file"], "exec")
    except SyntaxError as e:
        return mu["id"], "broken-mutant: %s" % e, []
    overlay = {mu["file"]: new}
    if variant is not None:
        import glob

        base = root or model.REPO
        try:
            for pth in glob.glob(os.path.join(base, "pymemcache", "**", "*.py"), recursive=True):
                rel = os.path.relpath(pth, base)
                if rel.startswith("pymemcache/test/"):
                    continue
                overlay[rel] = GLOBAL_VARIANTS[variant](new if rel == mu["file"] else open(pth, encoding="utf8").read())
        except Exception as e:
            return mu["id"], "variant-broken: %r" % (e,), []
    try:
        code, chk = run_property(mu["prop"], "quick", 0, root=root, overlay=overlay, write=False)
        keys = sorted({f.key for f in chk.findings()})
        return mu["id"], "ok", keys
    except model.AnalysisError as e:
        return mu["id"], "analysis-error: %s" % str(e)[:160], []
    except Exception as e:  # internal error of the checker on the mutant
        return mu["id"], "internal-error: %r" % (e,), []


def evaluate(muts, root, jobs=1, variant=None):
    props = sorted({mu["prop"] for mu in muts})
    base = {p: _baseline_keys(p, root) for p in props}
    if jobs > 1:
        with ProcessPoolExecutor(jobs) as ex:
            results = list(ex.map(run_mutant, [(mu, root, variant) for mu in muts]))
    else:
        results = [run_mutant((mu, root, variant)) for mu in muts]
    out = []
    for mu, (mid, status, keys) in zip(muts, results):
        b = base.get(mu["prop"]) or set()
        new_keys = [k for k in keys if k not in b]
        if status == "skipped":
            verdict = "skipped"
        elif mu["kind"] == "fire":
            hit = [k for k in new_keys if k.startswith(mu["rule"] + ":")]
            verdict = "caught" if hit else ("caught-by-other-rule" if new_keys else "MISSED")
            if status != "ok" and not new_keys:
                verdict = "MISSED (%s)" % status
        else:
            verdict = "silent" if (status == "ok" and not new_keys) else "NOISY (%s)" % (status if status != "ok" else new_keys[:2])
        out.append(dict(id=mu["id"], prop=mu["prop"], kind=mu["kind"], rule=mu["rule"], verdict=verdict, keys=new_keys[:4]))
    return out


SEEDED_DIR = os.path.join(os.path.dirname(os.path.dirname(os.path.abspath(__file__))), "seeded")


def _apply_patch_in_memory(patch_text, root):
    """Apply a unified diff to the files of `root` without touching them: returns {rel: new source} or None."""
    import re
    import shutil
    import subprocess
    import tempfile

    files = re.findall(r"^\+\+\+ b/(\S+)", patch_text, flags=re.M)
    if not files:
        return None
    tmp = tempfile.mkdtemp(prefix="pmcsa-seed-")
    try:
        for rel in files:
            src = os.path.join(root, rel)
            dst = os.path.join(tmp, rel)
            os.makedirs(os.path.dirname(dst), exist_ok=True)
            if os.path.exists(src):
                shutil.copy(src, dst)
        r = subprocess.run(["patch", "-p1", "-s", "-f"], input=patch_text, text=True, cwd=tmp, capture_output=True)
        if r.returncode != 0:
            return None
        return {rel: open(os.path.join(tmp, rel), encoding="utf8").read() for rel in files if os.path.exists(os.path.join(tmp, rel))}
    finally:
        shutil.rmtree(tmp, ignore_errors=True)


def _run_seed(args):
    sid, prop, root = args
    import json
    from .main import run_property

    d = os.path.join(SEEDED_DIR, sid)
    try:
        patch_text = open(os.path.join(d, "patch.diff"), encoding="utf8").read()
    except OSError:
        return sid, "skipped", []
    overlay = _apply_patch_in_memory(patch_text, root or model.REPO)
    if overlay is None:
        return sid, "skipped", []
    try:
        code, chk = run_property(prop, "quick", 0, root=root, overlay=overlay, write=False)
        return sid, "ok", sorted({f.key for f in chk.findings()})
    except model.AnalysisError as e:
        return sid, "analysis-error: %s" % str(e)[:120], []
    except Exception as e:
        return sid, "internal-error: %r" % (e,), []


def seeded_corpus(prop, root):
    """Regression corpus: seeded changes that this property's check is recorded to report must still be reported."""
    import json

    work = []
    if not os.path.isdir(SEEDED_DIR):
        return dict(total=0, still_reported=0, skipped=0, lost=[])
    for sid in sorted(os.listdir(SEEDED_DIR)):
        mp = os.path.join(SEEDED_DIR, sid, "meta.json")
        if not os.path.exists(mp):
            continue
        meta = json.load(open(mp))
        if meta.get("detection", {}).get(prop) == "violation":
            work.append((sid, prop, root))
    if not work:
        return dict(total=0, still_reported=0, skipped=0, lost=[])
    base = _baseline_keys(prop, root) or set()
    with ProcessPoolExecutor(min(16, len(work))) as ex:
        res = list(ex.map(_run_seed, work))
    lost, skipped, ok = [], 0, 0
    for sid, status, keys in res:
        if status == "skipped":
            skipped += 1
        elif [k for k in keys if k not in base]:
            ok += 1
        else:
            lost.append(dict(id=sid, status=status))
    return dict(total=len(work), still_reported=ok, skipped=skipped, lost=lost)


def non_vacuity(prop, root):
    muts = [mu for mu in MUTANTS if mu["prop"] == prop]
    res = evaluate(muts, root, jobs=min(8, max(1, len(muts))))
    fire = [r for r in res if r["kind"] == "fire"]
    sil = [r for r in res if r["kind"] == "silent"]
    return dict(
        mutants=len(muts),
        applicable=len([r for r in fire if r["verdict"] != "skipped"]),
        caught=len([r for r in fire if r["verdict"] in ("caught", "caught-by-other-rule")]),
        caught_by_intended_rule=len([r for r in fire if r["verdict"] == "caught"]),
        skipped=len([r for r in res if r["verdict"] == "skipped"]),
        missed=[dict(id=r["id"], rule=r["rule"]) for r in fire if r["verdict"].startswith("MISSED")],
        silent_total=len([r for r in sil if r["verdict"] != "skipped"]),
        silent_ok=len([r for r in sil if r["verdict"] == "silent"]),
        noisy=[dict(id=r["id"], keys=r["keys"]) for r in sil if r["verdict"].startswith("NOISY")],
        details=[{k: r[k] for k in ("id", "verdict", "keys")} for r in res],
        seeded=seeded_corpus(prop, root),
    )


# ---------------------------------------------------------------------------------------------
# whole-package behaviour-preserving variants: every check must keep its verdict
# ---------------------------------------------------------------------------------------------
def _variant_unparse(src):
    import ast

    return ast.unparse(ast.parse(src)) + "\n"


def _variant_rename_locals(src):
    """Rename local variables (not parameters, not attributes) of every function consistently: x -> x_r."""
    import ast
    import builtins

    tree = ast.parse(src)
    protected = set(dir(builtins))

    class R(ast.NodeTransformer):
        def visit_FunctionDef(self, node):
            params = {a.arg for a in node.args.args + node.args.kwonlyargs + node.args.posonlyargs}
            if node.args.vararg:
                params.add(node.args.vararg.arg)
            if node.args.kwarg:
                params.add(node.args.kwarg.arg)
            local = set()
            for n in ast.walk(node):
                if isinstance(n, ast.Name) and isinstance(n.ctx, ast.Store):
                    local.add(n.id)
                if isinstance(n, ast.ExceptHandler) and n.name:
                    local.add(n.name)
                if isinstance(n, (ast.Global, ast.Nonlocal)):
                    params |= set(n.names)
            local -= params | protected
            # do not rename inside nested functions' own scopes differently: one pass, same map
            for n in ast.walk(node):
                if isinstance(n, ast.Name) and n.id in local:
                    n.id = n.id + "_r"
                if isinstance(n, ast.ExceptHandler) and n.name in local:
                    n.name = n.name + "_r"
            return node

    tree = R().visit(tree)
    ast.fix_missing_locations(tree)
    return ast.unparse(tree) + "\n"


GLOBAL_VARIANTS = {"unparse-roundtrip": _variant_unparse, "rename-locals": _variant_rename_locals}


def _run_global(args):
    name, prop, root = args
    from .main import run_property
    import glob

    base = root or model.REPO
    overlay = {}
    for path in glob.glob(os.path.join(base, "pymemcache", "**", "*.py"), recursive=True):
        rel = os.path.relpath(path, base)
        if rel.startswith("pymemcache/test/"):
            continue
        try:
            overlay[rel] = GLOBAL_VARIANTS[name](open(path, encoding="utf8").read())
        except Exception as e:
            return name, prop, "variant-broken: %r" % (e,), []
    try:
        code, chk = run_property(prop, "quick", 0, root=root, overlay=overlay, write=False)
        err = getattr(chk, "partial", None)
        return name, prop, ("analysis-error: %s" % err[:120]) if err else "ok", sorted({f.key for f in chk.findings()})
    except model.AnalysisError as e:
        return name, prop, "analysis-error: %s" % str(e)[:160], []
    except Exception as e:
        return name, prop, "internal-error: %r" % (e,), []


def global_variants(root=None, jobs=16, props=None):
    from . import registry

    props = props or sorted(registry.CLAIMED)
    base = {p: _baseline_keys(p, root) for p in props}
    work = [(n, p, root) for n in GLOBAL_VARIANTS for p in props]
    with ProcessPoolExecutor(jobs) as ex:
        res = list(ex.map(_run_global, work))
    bad = 0
    for name, prop, status, keys in res:
        b = base.get(prop) or set()
        # finding keys that embed normalised statement text may legitimately change spelling under renaming
        same = status == "ok" and {k.split(":")[0] + ":" + k.split(":")[1] for k in keys} == {k.split(":")[0] + ":" + k.split(":")[1] for k in b}
        if not same:
            bad += 1
            print("global variant %-18s %s: verdict changed (%s) %s" % (name, prop, status, sorted(set(keys) ^ b)[:3]))
    print("global variants: %d/%d (variant x check) keep their verdict" % (len(res) - bad, len(res)))
    return bad


def selftest(prop=None, root=None, jobs=16):
    t0 = time.time()
    muts = [mu for mu in MUTANTS if prop in (None, "all", mu["prop"])]
    res = evaluate(muts, root, jobs=jobs)
    bad = 0
    for r in res:
        flag = ""
        if r["verdict"].startswith(("MISSED", "NOISY")):
            bad += 1
            flag = "  <<<<"
        print("%-34s %-4s %-6s %-22s %s%s" % (r["id"], r["prop"], r["kind"], r["verdict"], "; ".join(r["keys"])[:150], flag))
    n_fire = len([r for r in res if r["kind"] == "fire" and r["verdict"] != "skipped"])
    n_c = len([r for r in res if r["verdict"] in ("caught", "caught-by-other-rule")])
    n_int = len([r for r in res if r["verdict"] == "caught"])
    n_s = len([r for r in res if r["kind"] == "silent" and r["verdict"] != "skipped"])
    n_so = len([r for r in res if r["verdict"] == "silent"])
    print("selftest: %d/%d firing mutants reported (%d by the intended rule), %d/%d behaviour-preserving variants silent, %d skipped, %.1fs" % (n_c, n_fire, n_int, n_so, n_s, len([r for r in res if r["verdict"] == "skipped"]), time.time() - t0))
    if prop in (None, "all"):
        bad += global_variants(root, jobs)
        # the same firing mutants with every local variable of the package renamed: detection must not depend on names
        res2 = evaluate([mu for mu in muts if mu["kind"] == "fire"], root, jobs=jobs, variant="rename-locals")
        miss2 = [r for r in res2 if not r["verdict"].startswith("caught") and r["verdict"] != "skipped"]
        for r in miss2:
            print("under rename-locals: %-34s %s" % (r["id"], r["verdict"]))
        print("mutants under rename-locals: %d/%d still reported" % (len(res2) - len(miss2), len(res2)))
        bad += len(miss2)
    return 0 if bad == 0 else 1
