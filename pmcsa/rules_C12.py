"""C12 - HashClient single-key and multi-key operations agree on where a key lives (decided structurally)."""
import ast
from collections import namedtuple

from .model import AnalysisError, node_src, is_self_attr, call_name
from .paths import Interp, Domain, Env, TOP, NONE, Const, TupleV, Exc, ORD, fmt_trace, Opaque, Ctx, Neq
from .report import walk_no_nested
from . import wire

LEVEL = "other"
LEVEL_TEXT = (
    "Routing structure of HashClient decided by def-use and path rules: a single routing function whose result is the "
    "hasher's answer for the raw server key on every path; every key-addressed operation reaches a client only through "
    "it and sends the inner key; in the batching code each key of the input is inserted exactly once into the batch of "
    "the server its own routing call returned (skipped only when no server is left), batches are dispatched once to the "
    "client registered under that server's name, and the partial results are merged. Equality of merged values with "
    "per-key gets is a runtime statement that follows from these rules plus C16."
)
TRUSTED = ["CPython ast", "pmcsa/paths.py", "clients[_make_client_key(s)].server == s (checked in add_server, its only writer)"]

Sym = namedtuple("Sym", "name")
ClientOf = namedtuple("ClientOf", "key")
InnerOf = namedtuple("InnerOf", "key")
ServerOf = namedtuple("ServerOf", "key")
Batch = namedtuple("Batch", "server")
NodeOf = namedtuple("NodeOf", "arg")


class RouteDomain(Domain):
    """_get_client: which value is routed, which is returned."""

    async_enabled = False
    unpack_may_raise = False
    subscript_may_raise = False

    def __init__(self, prog, fn, is_pair, dead):
        super().__init__(prog, fn)
        self.is_pair = is_pair
        self.dead = dead
        self.routed = []
        self.lookups = []

    def attr_load(self, objval, node, state):
        if is_self_attr(node, "_dead_clients"):
            return Const(self.dead)
        if is_self_attr(node):
            return state.get("self." + node.attr, Opaque("self." + node.attr))
        return TOP

    def truth(self, v, state=None):
        if isinstance(v, Opaque) and v.tag == "self.ignore_exc":
            return None
        if isinstance(v, (Sym, NodeOf)):
            return None
        return super().truth(v, state)

    def never_none(self, v):
        if isinstance(v, (Sym, NodeOf)):
            return False
        return super().never_none(v)

    def call(self, node, fval, args, kwargs, state):
        name = call_name(node)
        if name == "isinstance" and len(args) == 2 and args[0] == Sym("key"):
            return [("ok", Const(self.is_pair), state)]
        if name == "len" and args and args[0] == Sym("key"):
            return [("ok", Const(2) if self.is_pair else TOP, state)]
        if name == "self.hasher.get_node":
            self.routed.append((node, args[0] if args else TOP, state))
            return [("ok", NodeOf(args[0] if args else TOP), state)]
        if name == "check_key_helper":
            return [("ok", Opaque("validated-key"), state), ("exc", Exc(ORD, "MemcacheIllegalInputError", node.lineno), state)]
        if name == "self._retry_dead":
            return [("ok", NONE, state)]
        return [("ok", TOP, state)]

    def unpack(self, value, n, node, state):
        if value == Sym("key") and n == 2 and self.is_pair:
            return [Sym("server_key_of_pair"), Sym("inner_of_pair")], False
        return super().unpack(value, n, node, state)

    def subscript_load(self, objval, idxval, node, state):
        if objval == Opaque("self.clients"):
            self.lookups.append((node, idxval))
            return ("client-for", idxval), False
        return TOP, False

    def compare(self, node, op, l, r, state):
        for a, b in ((l, r), (r, l)):
            if isinstance(a, NodeOf) and b == NONE:
                return TOP
        return super().compare(node, op, l, r, state)

    def refine_compare(self, node, op, lexpr, l, rexpr, r, branch, state):
        return state


class BatchDomain(Domain):
    """Builder loops of set_many / get_many."""

    async_enabled = False
    unpack_may_raise = False
    subscript_may_raise = False

    def __init__(self, prog, fn, batch_var, items_mode):
        super().__init__(prog, fn)
        self.batch_var = batch_var
        self.items_mode = items_mode
        self.problems = []
        self.route_calls = []

    def name_load(self, name, state, node=None):
        if name == self.batch_var:
            return Opaque("batches")
        return state.get(name, TOP)

    def never_none(self, v):
        if isinstance(v, ClientOf):
            return True
        return super().never_none(v)

    def truth(self, v, state=None):
        if isinstance(v, ClientOf):
            return True
        return super().truth(v, state)

    def attr_load(self, objval, node, state):
        if isinstance(objval, ClientOf) and node.attr == "server":
            return ServerOf(objval.key)
        if isinstance(objval, ClientOf):
            return ("attr", objval, node.attr)
        if isinstance(objval, Batch):
            return ("batch-method", objval, node.attr)
        return TOP

    def call(self, node, fval, args, kwargs, state):
        name = call_name(node)
        if name == "self._get_client":
            self.route_calls.append((node, args, kwargs))
            a = args[0] if args else TOP
            return [("ok", TupleV((ClientOf(a), InnerOf(a))), state), ("ok", TupleV((NONE, InnerOf(a))), state)]
        if isinstance(fval, tuple) and fval and fval[0] == "batch-method":
            _, b, meth = fval
            if meth in ("append", "add"):
                return [("ok", NONE, self._insert(state, b.server, args[0] if args else TOP, None, node))]
            if meth in ("extend", "update", "insert", "setdefault"):
                self.problems.append(("batch-op:%s" % meth, "batch is filled with .%s(): cannot show one insertion per key" % meth, node))
            return [("ok", TOP, state)]
        if name == "id" and args and isinstance(args[0], ClientOf):
            return [("ok", ("id-of", args[0]), state)]
        return [("ok", TOP, state)]

    def _insert(self, state, server, key, value, node):
        ins = state.get("ins", ())
        return state.set("ins", ins + ((server, key, value, node.lineno),))

    def subscript_load(self, objval, idxval, node, state):
        if objval == Opaque("batches"):
            return Batch(idxval), False
        return TOP, False

    def subscript_store(self, objval, idxval, value, node, state):
        if isinstance(objval, Batch):
            return self._insert(state, objval.server, idxval, value, node)
        if objval == Opaque("batches"):
            self.problems.append(("batch-rebound", "a whole batch is re-bound (`%s`): earlier keys of that server are dropped" % node_src(node), node))
        return state



BoundCall = namedtuple("BoundCall", "obj attr")
StarArgs = namedtuple("StarArgs", "name")
ArgList = namedtuple("ArgList", "items star")
ResultOf = namedtuple("ResultOf", "n")
Truthiness = namedtuple("Truthiness", "b")


class DispatchDomain(Domain):
    """_run_cmd and the dispatch loops: which client, which bound method and which payload reach the safe runner,
    and where its result goes.  Argument lists built with list(args) + insert(0, x) or passed as `x, *args` are the same."""

    async_enabled = False
    unpack_may_raise = False
    subscript_may_raise = False
    global_keys = ("runs", "merges")

    def truth(self, v, state=None):
        if isinstance(v, Truthiness):
            return v.b
        if isinstance(v, (ClientOf, BoundCall, ResultOf)) or (isinstance(v, tuple) and v and v[0] == "client-of-key"):
            return True if not isinstance(v, ResultOf) else None
        return super().truth(v, state)

    def never_none(self, v):
        return isinstance(v, (ClientOf, BoundCall)) or (isinstance(v, tuple) and v and v[0] == "client-of-key") or super().never_none(v)

    def attr_load(self, objval, node, state):
        if is_self_attr(node, "clients"):
            return Opaque("self.clients")
        if is_self_attr(node):
            return Opaque("self." + node.attr)
        if isinstance(objval, ClientOf) or (isinstance(objval, tuple) and objval and objval[0] == "client-of-key"):
            if node.attr == "server":
                return ServerOf(objval)
            return BoundCall(objval, Const(node.attr))
        return TOP

    def subscript_load(self, objval, idxval, node, state):
        if objval == Opaque("self.clients"):
            return ("client-of-key", idxval), False
        if isinstance(objval, Sym) and isinstance(node.slice, ast.Slice):
            return ("slice-of", objval), False
        return TOP, False

    def name_store(self, name, value, state, node=None):
        if isinstance(value, tuple) and value and value[0] == "acc+":
            state = state.set("merges", state.get("merges", ()) + ((name, value[2]),))
            value = ("acc", name)
        return state.set(name, value)

    def binop(self, node, l, r, state):
        if isinstance(node.op, ast.Add) and isinstance(r, ResultOf):
            return ("acc+", l, r)
        return TOP

    def for_next(self, node, itval, state):
        # an inner loop (slices of a batch) is unrolled twice: enough to tell "merged per slice" from "merged once"
        k = ("visited", getattr(node, "lineno", 0))
        n = state.get(k, 0)
        if n >= 2:
            return []
        return [(TOP, state.set(k, n + 1))]

    def for_exhausted(self, node, itval, state):
        return state if state.get(("visited", getattr(node, "lineno", 0)), 0) >= 2 else None

    def call(self, node, fval, args, kwargs, state):
        name = call_name(node)
        if name == "self._get_client":
            a = args[0] if args else TOP
            return [("ok", TupleV((ClientOf(a), InnerOf(a))), state), ("ok", TupleV((NONE, InnerOf(a))), state)]
        if name == "self._make_client_key":
            return [("ok", ("node-name-of", args[0] if args else TOP), state)]
        if name == "getattr" and len(args) >= 2:
            return [("ok", BoundCall(args[0], args[1]), state)]
        if name == "list" and args and isinstance(args[0], StarArgs):
            return [("ok", ArgList((), args[0]), state)]
        if isinstance(node.func, ast.Attribute) and node.func.attr == "insert" and isinstance(node.func.value, ast.Name) and isinstance(state.get(node.func.value.id, None), ArgList) and len(args) == 2 and args[0] == Const(0):
            cur = state.get(node.func.value.id)
            return [("ok", NONE, state.set(node.func.value.id, ArgList((args[1],) + cur.items, cur.star)))]
        if name in ("self._safely_run_func", "self._safely_run_set_many"):
            flat = []
            for an, av in zip(node.args, args):
                if isinstance(an, ast.Starred):
                    if isinstance(av, ArgList):
                        flat += list(av.items) + ([("STAR", av.star.name)] if av.star is not None else [])
                    elif isinstance(av, StarArgs):
                        flat.append(("STAR", av.name))
                    else:
                        flat.append(("STAR?", av if _h(av) else "?"))
                else:
                    flat.append(av if _h(av) else TOP)
            runs = state.get("runs", ())
            st = state.set("runs", runs + ((name, tuple(flat)),))
            return [("ok", ResultOf(len(runs) + 1), st)]
        if isinstance(node.func, ast.Attribute) and node.func.attr == "update" and isinstance(node.func.value, ast.Name) and args:
            return [("ok", NONE, state.set("merges", state.get("merges", ()) + ((node.func.value.id, args[0]),)))]
        return [("ok", TOP, state)]


def _h(v):
    try:
        hash(v)
        return True
    except TypeError:
        return False


def run_cmd_problems(prog):
    """Semantic check of HashClient._run_cmd: -> list of problem strings."""
    hc = prog.cls("HashClient")
    rc = prog.method(hc, "_run_cmd")
    pp = rc.pos_params()
    if len(pp) < 3 or not rc.has_varargs():
        return ["_run_cmd no longer has the shape (cmd, key, default_val, *args, **kwargs)"]
    cmd, key, dv = pp[0].name, pp[1].name, pp[2].name
    va = [p.name for p in rc.params if p.kind == "vararg"][0]
    dom = DispatchDomain(prog, rc)
    outs = Interp(dom, rc.node, prog).run(Env({cmd: Sym("cmd"), key: Sym("key"), dv: Sym("default"), va: StarArgs(va)}))
    problems = []
    routed = 0
    for s_, v, t in outs.of("ret"):
        runs = s_.get("runs", ())
        if not runs:
            if v != Sym("default"):
                problems.append("without a routed client it returns %s instead of default_val" % _d(v))
            continue
        routed += 1
        if len(runs) != 1:
            problems.append("%d calls of the safe runner on one path" % len(runs))
            continue
        nm, flat = runs[0]
        want = (ClientOf(Sym("key")), BoundCall(ClientOf(Sym("key")), Sym("cmd")), Sym("default"), InnerOf(Sym("key")), ("STAR", va))
        if nm != "self._safely_run_func" or flat != want:
            problems.append("the safe runner is called with (%s) instead of (client routed for the key, that client's method looked up by the command name, default_val, the inner key returned by the router, *args)" % ", ".join(_d(x) for x in flat))
        if not isinstance(v, ResultOf):
            problems.append("the runner's result is not returned as is")
    if outs.of("exc"):
        problems.append("raises %s" % [e.cls for s_, e, t in outs.of("exc")])
    if not routed:
        problems.append("no path hands the call to the safe runner")
    return problems


def run(chk):
    prog = chk.prog
    hc = prog.cls("HashClient")
    gc = prog.method(hc, "_get_client")

    # ------------------------------------------------------------------ R1 one router
    r1 = chk.rule("C12.R1", "one router: hasher.get_node has one call site; every key-addressed operation reaches a client only through _get_client(key)")
    sites = []
    for f in prog.all_functions():
        for c in walk_no_nested(f.node):
            if isinstance(c, ast.Call) and isinstance(c.func, ast.Attribute) and c.func.attr == "get_node":
                sites.append((f, c))
    r1.expect(len(sites) == 1 and sites[0][0] is gc, "hasher.get_node is called only from HashClient._get_client", "HashClient:get_node-call-sites", "hasher.get_node is called from %s: placement can differ between operations" % [f.qualname for f, c in sites], fn=gc, node=gc.node)
    gcalls = []
    for f in hc.methods.values():
        for c in walk_no_nested(f.node):
            if isinstance(c, ast.Call) and call_name(c) == "self._get_client":
                gcalls.append((f, c))
    shapes = {(len(c.args), tuple(sorted(k.arg or "**" for k in c.keywords))) for f, c in gcalls}
    r1.expect(shapes == {(1, ())}, "all %d call sites of _get_client pass exactly the key" % len(gcalls), "HashClient:_get_client-call-shapes", "_get_client is called with differing arguments (%s) at different sites: single-key and multi-key operations are not routed by the same function of the key" % sorted(shapes), fn=gc, node=gcalls[0][1] if gcalls else gc.node)
    r1.floor("call sites of _get_client", len(gcalls), 3)
    rc = prog.method(hc, "_run_cmd")
    rcp = run_cmd_problems(prog)
    r1.expect(not rcp, "_run_cmd routes its key parameter, looks the method up on the routed client and sends the inner key", "HashClient._run_cmd:routing", "_run_cmd: %s" % "; ".join(rcp), fn=rc, node=rc.node)
    n_ops = 0
    from .rules_C16 import key_ops

    for name, cf in sorted(key_ops(prog).items()):
        hf = prog.method(hc, name, required=False)
        if hf is None:
            r1.fail("HashClient.%s:missing" % name, "HashClient lacks the key-addressed operation %s: a key written through one operation cannot be reached through this one" % name, file=hc.module.rel, line=hc.node.lineno)
            continue
        n_ops += 1
        direct = [c for c in walk_no_nested(hf.node) if isinstance(c, ast.Call) and isinstance(c.func, ast.Attribute) and isinstance(c.func.value, ast.Subscript) and is_self_attr(c.func.value.value, "clients")]
        r1.expect(not direct, "HashClient.%s does not pick a client by hand" % name, "HashClient.%s:bypasses-router" % name, "HashClient.%s calls a client chosen without the router: `%s`" % (name, node_src(direct[0]) if direct else ""), fn=hf)
    r1.floor("key-addressed operations on HashClient", n_ops, 18)

    # ------------------------------------------------------------------ R2 routed key raw, sent key inner
    r2 = chk.rule("C12.R2", "_get_client routes the raw server key (first component of a pair) through the hasher on every path and returns the inner key")
    n_paths = 0
    for is_pair in (False, True):
        for dead in (False, True):
            dom = RouteDomain(prog, gc, is_pair, dead)
            pname = gc.pos_params()[0].name
            outs = Interp(dom, gc.node, prog).run(Env({pname: Sym("key")}))
            want_route = Sym("server_key_of_pair") if is_pair else Sym("key")
            want_inner = Sym("inner_of_pair") if is_pair else Sym("key")
            for node, arg, st in dom.routed:
                r2.expect(arg == want_route, "get_node(%s) for a %s key" % (want_route.name, "pair" if is_pair else "plain"), "HashClient._get_client:routes-wrong-value", "for a %s key the hasher is asked about %s instead of the raw server key: the same key is placed differently from what the published rule (and other operations) give" % ("(server_key, key) pair" if is_pair else "plain", _d(arg)), fn=gc, node=node)
            if not dom.routed:
                r2.fail("HashClient._get_client:no-routing", "no call of hasher.get_node is reached", fn=gc)
            for s, v, t in outs.of("ret"):
                n_paths += 1
                if isinstance(v, TupleV) and len(v.items) == 2:
                    cl, k = v.items
                    if cl == NONE:
                        r2.ok("no-server path returns (None, inner key)", sample=False) if k == want_inner else r2.fail("HashClient._get_client:returns-wrong-key", "the key returned on the no-server path is %s" % _d(k), fn=gc)
                        continue
                    okc = isinstance(cl, tuple) and cl[0] == "client-for" and isinstance(cl[1], NodeOf) and cl[1].arg == want_route
                    r2.expect(okc, "returned client is self.clients[get_node(server key)]", "HashClient._get_client:client-not-from-hasher", "on some path the returned client is %s rather than self.clients[hasher.get_node(server_key)]: placement is not recomputed from the servers currently in rotation (%s)" % (_d(cl), fmt_trace(t)), fn=gc, witness=fmt_trace(t))
                    r2.expect(k == want_inner, "returned key is the inner key", "HashClient._get_client:returns-wrong-key", "the key handed on to the client is %s instead of the %s" % (_d(k), "second component of the pair" if is_pair else "key itself"), fn=gc)
                else:
                    r2.fail("HashClient._get_client:return-shape", "_get_client returns %s" % _d(v), fn=gc)
    r2.floor("return paths of _get_client", n_paths, 4)

    # ------------------------------------------------------------------ R3 / R4 batches
    r3 = chk.rule("C12.R3", "batching: each key is inserted exactly once, under the inner key, into the batch of the server its own routing call returned; skipped only when no server is left; each batch dispatched once to that server's client")
    r4 = chk.rule("C12.R4", "merge: get_many returns the union of the per-server answers, set_many concatenates the failures, delete_many visits each key once")
    for mname, items_mode in (("set_many", True), ("get_many", False)):
        f = prog.method(hc, mname)
        loops = sorted([n for n in f.node.body if isinstance(n, ast.For)], key=lambda n: n.lineno)
        if len(loops) != 2:
            raise AnalysisError("C12.R3: HashClient.%s has %d top-level loops (builder + dispatch expected)" % (mname, len(loops)))
        build, disp = loops
        bvars = [n.targets[0].id for n in walk_no_nested(f.node) if isinstance(n, ast.Assign) and isinstance(n.targets[0], ast.Name) and isinstance(n.value, ast.Call) and call_name(n.value).endswith("defaultdict")]
        if len(bvars) != 1:
            raise AnalysisError("C12.R3: cannot identify the batch map of HashClient.%s" % mname)
        bvar = bvars[0]
        inp = f.pos_params()[0].name
        # builder iterates the caller's collection itself
        it = build.iter
        if items_mode:
            okit = isinstance(it, ast.Call) and isinstance(it.func, ast.Attribute) and it.func.attr == "items" and isinstance(it.func.value, ast.Name) and it.func.value.id == inp and isinstance(build.target, ast.Tuple) and len(build.target.elts) == 2
        else:
            okit = isinstance(it, ast.Name) and it.id == inp and isinstance(build.target, ast.Name)
        r3.expect(okit, "%s: the builder loop iterates the caller's %s" % (mname, inp), "HashClient.%s:builder-iterable" % mname, "the builder loop of HashClient.%s iterates `%s`, not every element of `%s` once" % (mname, node_src(it), inp), fn=f, node=build)
        if not okit:
            continue
        dom = BatchDomain(prog, f, bvar, items_mode)
        interp = Interp(dom, f.node, prog)
        elem = TupleV((Sym("k"), Sym("v"))) if items_mode else Sym("k")
        tgt, _ = interp.assign(build.target, elem, Env({"ins": ()}), Ctx(f.node))
        outs = interp.block(build.body, [(s, ()) for s in tgt], Ctx(f.node))
        for construct, msg, node in dom.problems:
            r3.fail("HashClient.%s:%s" % (mname, construct), msg, fn=f, node=node)
        for node, args, kwargs in dom.route_calls:
            r3.expect(len(args) == 1 and args[0] == Sym("k") and not kwargs, "%s routes the loop's own key" % mname, "HashClient.%s:routes-other-value" % mname, "the builder loop of %s routes %s instead of the key of the current element" % (mname, [_d(a) for a in args]), fn=f, node=node)
        if not dom.route_calls:
            r3.fail("HashClient.%s:no-routing" % mname, "the builder loop never calls the router", fn=f, node=build)
        ends = outs.of("norm") + outs.of("cont")
        n_ok = 0
        for s, v, t in ends:
            ins = s.get("ins", ())
            cl = None
            for k_, v_ in s.d.items():
                if isinstance(v_, ClientOf) or v_ == NONE:
                    pass
            client_val = _client_value(s)
            if client_val == NONE:
                r3.expect(len(ins) == 0, "%s: no server left -> key skipped" % mname, "HashClient.%s:insert-without-client" % mname, "a key is batched although the router returned no client", fn=f, node=build)
                continue
            if len(ins) != 1:
                r3.fail("HashClient.%s:key-%s" % (mname, "dropped" if not ins else "duplicated"), "an iteration of the builder loop of %s can complete with %d insertions although the router returned a client: a requested key is %s (path: %s)" % (mname, len(ins), "silently dropped from the batch" if not ins else "sent more than once", fmt_trace(t)), fn=f, node=build, witness=fmt_trace(t))
                continue
            server, key, value, line = ins[0]
            okk = server == ServerOf(Sym("k")) and key == InnerOf(Sym("k")) and (value == Sym("v") if items_mode else True)
            n_ok += 1
            r3.expect(okk, "%s: batch[server of this key][inner key]" % mname, "HashClient.%s:batch-index" % mname, "the builder loop of %s files the key under (%s, %s%s) instead of (server of the routed client, inner key%s): a key can end up in another server's batch or under another name" % (mname, _d(server), _d(key), (", " + _d(value)) if items_mode else "", ", its value" if items_mode else ""), fn=f, node=build)
        if outs.of("brk") or outs.of("ret"):
            r3.fail("HashClient.%s:builder-leaves-early" % mname, "the builder loop can stop before all keys were batched", fn=f, node=build)
        r3.floor("%s builder paths with a routed client" % mname, n_ok, 1)
        # dispatch loop: evaluated semantically
        okd = isinstance(disp.iter, ast.Call) and isinstance(disp.iter.func, ast.Attribute) and disp.iter.func.attr == "items" and isinstance(disp.iter.func.value, ast.Name) and disp.iter.func.value.id == bvar and isinstance(disp.target, ast.Tuple) and len(disp.target.elts) == 2
        r3.expect(okd, "%s: dispatch iterates %s.items()" % (mname, bvar), "HashClient.%s:dispatch-iterable" % mname, "the dispatch loop of %s does not iterate every (server, batch) of the batch map" % mname, fn=f, node=disp)
        if not okd:
            continue
        nested = [n for n in ast.walk(disp) if isinstance(n, (ast.For, ast.While)) and n is not disp]
        slicing_ok = False
        if nested:
            batchvar = disp.target.elts[1].id if isinstance(disp.target.elts[1], ast.Name) else None
            nl = nested[0]
            okn = len(nested) == 1 and isinstance(nl, ast.For) and isinstance(nl.target, ast.Name) and isinstance(nl.iter, ast.Call) and call_name(nl.iter) == "range" and len(nl.iter.args) == 3 and isinstance(nl.iter.args[0], ast.Constant) and nl.iter.args[0].value == 0 and isinstance(nl.iter.args[1], ast.Call) and call_name(nl.iter.args[1]) == "len" and isinstance(nl.iter.args[1].args[0], ast.Name) and nl.iter.args[1].args[0].id == batchvar
            step = node_src(nl.iter.args[2]) if okn else None
            sl = [x for x in ast.walk(nl) if isinstance(x, ast.Subscript) and isinstance(x.value, ast.Name) and x.value.id == batchvar and isinstance(x.slice, ast.Slice)] if okn else []
            slicing_ok = bool(okn and len(sl) == 1 and isinstance(sl[0].slice.lower, ast.Name) and sl[0].slice.lower.id == nl.target.id and isinstance(sl[0].slice.upper, ast.BinOp) and isinstance(sl[0].slice.upper.op, ast.Add) and node_src(sl[0].slice.upper.left) == nl.target.id and node_src(sl[0].slice.upper.right) == step)
            r3.expect(slicing_ok, "%s: the batch is sent in consecutive slices that partition it" % mname, "HashClient.%s:dispatch-nested-loop" % mname, "the dispatch loop of %s contains another loop that is not the slicing idiom `for i in range(0, len(batch), N): batch[i:i+N]`: keys of a batch may be sent twice or not at all" % mname, fn=f, node=nl)
        va = [p.name for p in f.params if p.kind == "vararg"]
        rets = sorted([r_ for r_ in walk_no_nested(f.node) if isinstance(r_, ast.Return) and isinstance(r_.value, ast.Name)], key=lambda r_: r_.lineno)
        acc_name = rets[-1].value.id if rets else None
        for gets in ((True, False) if not items_mode else (None,)):
            ddom = DispatchDomain(prog, f)
            di = Interp(ddom, f.node, prog)
            env = {va[0]: StarArgs(va[0])} if va else {}
            if gets is not None and f.param("gets") is not None:
                env["gets"] = Truthiness(gets)
            tg, _ = di.assign(disp.target, TupleV((Sym("srv"), Sym("batch"))), Env(env), Ctx(f.node))
            douts = di.block(disp.body, [(s_, ()) for s_ in tg], Ctx(f.node))
            ends = douts.of("norm") + douts.of("cont")
            if not ends or douts.of("brk") or douts.of("ret") or douts.of("exc"):
                r3.fail("HashClient.%s:dispatch-leaves-early" % mname, "an iteration of the dispatch loop of %s can end early (break/return/raise): later batches are not sent" % mname, fn=f, node=disp)
            for s_, v_, t_ in ends:
                runs = s_.get("runs", ())
                merges = s_.get("merges", ())
                client = ("client-of-key", ("node-name-of", Sym("srv")))
                star = ("STAR", va[0]) if va else None
                if items_mode:
                    want = ("self._safely_run_set_many", tuple(x for x in (client, Sym("batch"), star) if x is not None))
                else:
                    meth = "gets_many" if gets else "get_many"
                    payload = ("slice-of", Sym("batch")) if (nested and slicing_ok) else Sym("batch")
                    want = ("self._safely_run_func", tuple(x for x in (client, BoundCall(client, Const(meth)), TOP, payload, star) if x is not None))
                n_want = 2 if (nested and slicing_ok) else 1
                okrun = len(runs) == n_want and all(r_[0] == want[0] and len(r_[1]) == len(want[1]) and all(w is TOP or w == g for w, g in zip(want[1], r_[1])) for r_ in runs)
                r3.expect(okrun, "%s%s: one runner call with the batch's own client, method and batch" % (mname, "" if gets is None else "(gets=%s)" % gets), "HashClient.%s:dispatch-batch" % mname, "an iteration of the dispatch loop of %s%s calls the safe runner as %s; expected one call with (the client registered under the batch's own server name%s, the server's own batch unmodified%s, *args)" % (mname, "" if gets is None else " (gets=%s)" % gets, [(n_, [_d(x) for x in fl]) for n_, fl in runs], "" if items_mode else ", that client's %s" % ("gets_many" if gets else "get_many"), " or its consecutive slices" if nested else ""), fn=f, node=disp)
                okm = len(merges) == len(runs) and all(m_[0] == acc_name for m_ in merges) and [m_[1] for m_ in merges] == [ResultOf(i_ + 1) for i_ in range(len(runs))]
                rule_m = r4
                if items_mode:
                    rule_m.expect(okm, "set_many: the runner's failed keys are added to the list that is returned", "HashClient.set_many:merge", "set_many does not add the failed keys of every batch to the list it returns (merges: %s, returned: %s)" % (merges, acc_name), fn=f, node=disp)
                else:
                    rule_m.expect(okm, "get_many%s: every answer is merged into the dict that is returned" % ("" if gets is None else "(gets=%s)" % gets), "HashClient.get_many:merge", "get_many does not merge every batch's (or slice's) answer into the dict it returns (merges: %s, returned: %s)" % ([(m_[0], _d(m_[1])) for m_ in merges], acc_name), fn=f, node=disp)
    dm = prog.method(hc, "delete_many")
    loops = [n for n in walk_no_nested(dm.node) if isinstance(n, ast.For)]
    okdm = len(loops) == 1 and isinstance(loops[0].iter, ast.Name) and loops[0].iter.id == dm.pos_params()[0].name
    if okdm:
        calls = [c for c in ast.walk(loops[0]) if isinstance(c, ast.Call) and call_name(c) == "self._run_cmd"]
        okdm = len(calls) == 1 and isinstance(calls[0].args[1], ast.Name) and isinstance(loops[0].target, ast.Name) and calls[0].args[1].id == loops[0].target.id and not [n for n in ast.walk(loops[0]) if isinstance(n, (ast.Break, ast.Continue, ast.Return))]
    r4.expect(okdm, "delete_many runs delete once per key of the input", "HashClient.delete_many:visits", "delete_many does not run the delete command exactly once for every key", fn=dm, node=dm.node)
    # add_server keeps clients[_make_client_key(s)].server == s
    add = prog.method(hc, "add_server")
    ctor = [c for c in walk_no_nested(add.node) if isinstance(c, ast.Call) and any(k.arg is None and is_self_attr(k.value, "default_kwargs") for k in c.keywords)]
    okc = len(ctor) == 1 and ctor[0].args and isinstance(ctor[0].args[0], ast.Name)
    if okc:
        srv = ctor[0].args[0].id
        mk = [n for n in walk_no_nested(add.node) if isinstance(n, ast.Assign) and isinstance(n.value, ast.Call) and call_name(n.value) == "self._make_client_key" and isinstance(n.value.args[0], ast.Name) and n.value.args[0].id == srv]
        st = [n for n in walk_no_nested(add.node) if isinstance(n, ast.Assign) and isinstance(n.targets[0], ast.Subscript) and is_self_attr(n.targets[0].value, "clients")]
        okc = len(mk) == 1 and len(st) == 1 and isinstance(st[0].targets[0].slice, ast.Name) and st[0].targets[0].slice.id == mk[0].targets[0].id and isinstance(st[0].value, ast.Name) and isinstance(getattr(ctor[0], "_parent", None), ast.Assign) and ctor[0]._parent.targets[0].id == st[0].value.id
    r3.expect(okc, "add_server registers the client built for `server` under _make_client_key(server)", "HashClient.add_server:registration", "add_server does not register the client it built for a server under that server's node name", fn=add, node=add.node)
    writers = []
    for f in prog.all_functions():
        for n in walk_no_nested(f.node):
            if isinstance(n, ast.Assign) and any(isinstance(t, ast.Subscript) and isinstance(t.value, ast.Attribute) and t.value.attr == "clients" for t in n.targets):
                writers.append(f.qualname)
    r3.expect(sorted(set(writers)) == ["HashClient.add_server"], "only add_server stores into .clients", "HashClient:clients-writers", ".clients entries are written by %s" % sorted(set(writers)), fn=add)
    chk.assume("memcached answers a multi-key fetch with exactly the items it holds (server model), so per-server answers are disjoint")


def _client_value(state):
    for k, v in state.d.items():
        if isinstance(v, ClientOf):
            return v
    for k, v in state.d.items():
        if isinstance(k, str) and v == NONE and k not in ("ins",):
            return NONE
    return None


def _ancestors(n):
    n = getattr(n, "_parent", None)
    while n is not None:
        yield n
        n = getattr(n, "_parent", None)


def _d(v):
    if isinstance(v, Sym):
        return {"key": "the key argument", "server_key_of_pair": "the server key of the pair", "inner_of_pair": "the inner key of the pair", "k": "the current key", "v": "the current value"}.get(v.name, v.name)
    if isinstance(v, (ClientOf, InnerOf, ServerOf)):
        return "%s(%s)" % ({"ClientOf": "client routed for", "InnerOf": "inner key of", "ServerOf": "server of the client routed for"}[type(v).__name__], _d(v.key))
    if isinstance(v, NodeOf):
        return "get_node(%s)" % _d(v.arg)
    if isinstance(v, tuple) and v and v[0] == "client-for":
        return "self.clients[%s]" % _d(v[1])
    if isinstance(v, tuple) and v and v[0] == "id-of":
        return "id(%s)" % _d(v[1])
    if isinstance(v, Opaque):
        return str(v.tag)
    return str(v)
