"""Protocol and contract tables used by the checks (from memcached protocol.txt and pymemcache's documented API)."""
import re

STORE_VERBS = ("set", "add", "replace", "append", "prepend")

# wire grammar per verb over rendered fragments (see wire.render): ‹K› key, ‹I› checked integer, ‹L› length of data,
# ‹D› the data block, ‹K+› one or more space separated keys
GRAMMAR = {}
for v in STORE_VERBS:
    GRAMMAR[v] = re.compile(r"^%s ‹K› ‹I› ‹I› ‹L›( noreply)?\r\n‹D›\r\n$" % v)
GRAMMAR["cas"] = re.compile(r"^cas ‹K› ‹I› ‹I› ‹L› ‹I›( noreply)?\r\n‹D›\r\n$")
GRAMMAR["get"] = re.compile(r"^get (‹K›|‹K\+›)\r\n$")
GRAMMAR["gets"] = re.compile(r"^gets (‹K›|‹K\+›)\r\n$")
GRAMMAR["gat"] = re.compile(r"^gat ‹I› (‹K›|‹K\+›)\r\n$")
GRAMMAR["gats"] = re.compile(r"^gats ‹I› (‹K›|‹K\+›)\r\n$")
GRAMMAR["delete"] = re.compile(r"^delete ‹K›( noreply)?\r\n$")
GRAMMAR["incr"] = re.compile(r"^incr ‹K› ‹I›( noreply)?\r\n$")
GRAMMAR["decr"] = re.compile(r"^decr ‹K› ‹I›( noreply)?\r\n$")
GRAMMAR["touch"] = re.compile(r"^touch ‹K› ‹I›( noreply)?\r\n$")
GRAMMAR["flush_all"] = re.compile(r"^flush_all ‹I›( noreply)?\r\n$")
GRAMMAR["version"] = re.compile(r"^version\r\n$")
GRAMMAR["quit"] = re.compile(r"^quit\r\n$")
GRAMMAR["shutdown"] = re.compile(r"^shutdown( graceful)?\r\n$")
GRAMMAR["stats"] = re.compile(r"^stats( (‹K›|‹K\+›))?\r\n$")
GRAMMAR["cache_memlimit"] = re.compile(r"^cache_memlimit (‹K›|‹K\+›)\r\n$")

# which verb each public method of Client sends
METHOD_VERB = {"set_many": "set", "get_many": "get", "gets_many": "gets", "delete_many": "delete"}
EXEMPT_FROM_GRAMMAR = {"raw_command": "sends the caller's command verbatim by contract"}

# accepted reply tokens per store verb and their documented return values
STORE_REPLIES = {v: (b"STORED", b"NOT_STORED") for v in STORE_VERBS}
STORE_REPLIES["cas"] = (b"STORED", b"EXISTS", b"NOT_FOUND")
STORE_VALUES = {b"STORED": True, b"NOT_STORED": False, b"NOT_FOUND": None, b"EXISTS": False}

# reply -> documented return value for the misc commands ("RAISE:<cls>" = must raise)
REPLY_TABLE = {
    "delete": {b"DELETED": True, b"NOT_FOUND": False},
    "touch": {b"TOUCHED": True, b"NOT_FOUND": False},
    "flush_all": {b"OK": True},
    "incr": {b"5": 5, b"18446744073709551615": 18446744073709551615, b"0": 0, b"NOT_FOUND": None},
    "decr": {b"5": 5, b"0": 0, b"NOT_FOUND": None},
    "version": {b"VERSION 1.6.21": b"1.6.21", b"VERSION 1.4.5 extra": b"1.4.5 extra", b"garbage": "RAISE:MemcacheUnknownError"},
}
NOREPLY_CONSTANT = {"set": True, "add": True, "replace": True, "append": True, "prepend": True, "cas": True, "set_many": [], "delete": True, "delete_many": True, "touch": True, "flush_all": True, "incr": None, "decr": None}
NOREPLY_DEFAULT_NONE = ("set", "add", "replace", "append", "prepend", "set_many", "delete", "delete_many", "touch", "flush_all")
NOREPLY_DEFAULT_FALSE = ("cas", "incr", "decr")
EXPECT_CAS = {"get": False, "get_many": False, "gat": False, "gets": True, "gets_many": True, "gats": True, "stats": False, "cache_memlimit": False}

# a valid beginning of a multi-line / multi-command reply, used to place an error line at a later position
VALID_FIRST_REPLY = {
    "get": (b"VALUE k1 0 3", b"abc"), "gat": (b"VALUE k1 0 3", b"abc"), "get_many": (b"VALUE k1 0 3", b"abc"),
    "gets": (b"VALUE k1 0 3 7", b"abc"), "gats": (b"VALUE k1 0 3 7", b"abc"), "gets_many": (b"VALUE k1 0 3 7", b"abc"),
    "delete_many": (b"DELETED",), "set_many": (b"STORED",), "stats": (b"STAT pid 1",),
}

# The reply the protocol defines for the commands of one call: (number of symbolic keys K1..Kn, reply items).  A reply
# item is a line, the data block following a VALUE line, or CLOSE (the server closes the connection).
CLOSE = ("close",)
_V1, _V2, _V1C, _V2C, _D = b"VALUE k1 0 3", b"VALUE k2 0 3", b"VALUE k1 0 3 7", b"VALUE k2 0 3 9", b"abc"
CALL_SCRIPTS = {
    "get": [(1, (b"END",)), (1, (_V1, _D, b"END"))],
    "gat": [(1, (b"END",)), (1, (_V1, _D, b"END"))],
    "gets": [(1, (b"END",)), (1, (_V1C, _D, b"END"))],
    "gats": [(1, (b"END",)), (1, (_V1C, _D, b"END"))],
    "get_many": [(0, ()), (1, (_V1, _D, b"END")), (2, (b"END",)), (2, (_V2, _D, b"END")), (2, (_V2, _D, _V1, _D, b"END"))],
    "gets_many": [(0, ()), (1, (_V1C, _D, b"END")), (2, (b"END",)), (2, (_V2C, _D, b"END")), (2, (_V2C, _D, _V1C, _D, b"END"))],
    "set_many": [(0, ()), (1, (b"STORED",)), (2, (b"STORED", b"NOT_STORED")), (2, (b"NOT_STORED", b"STORED"))],
    "delete": [(1, (b"DELETED",)), (1, (b"NOT_FOUND",))],
    "delete_many": [(0, ()), (1, (b"DELETED",)), (2, (b"DELETED", b"NOT_FOUND"))],
    "touch": [(1, (b"TOUCHED",)), (1, (b"NOT_FOUND",))],
    "incr": [(1, (b"5",)), (1, (b"NOT_FOUND",))],
    "decr": [(1, (b"5",)), (1, (b"NOT_FOUND",))],
    "flush_all": [(0, (b"OK",))],
    "version": [(0, (b"VERSION 1.6.21",))],
    "stats": [(0, (b"END",)), (0, (b"STAT pid 1", b"STAT uptime 2", b"END"))],
    "cache_memlimit": [(0, (b"OK",))],
    "shutdown": [(0, (CLOSE,))],
    "raw_command": [(0, (b"OK",))],
    "quit": [(0, ())],
}
for _v in STORE_VERBS + ("cas",):
    CALL_SCRIPTS[_v] = [(1, (r,)) for r in STORE_REPLIES[_v]]

# thorough tier: the same obligations on larger batches (three keys, more reply combinations)
_V3, _V3C = b"VALUE k3 0 3", b"VALUE k3 0 3 5"
CALL_SCRIPTS_THOROUGH = {
    "get_many": [(3, (b"END",)), (3, (_V3, _D, _V1, _D, b"END")), (3, (_V2, _D, _V3, _D, _V1, _D, b"END"))],
    "gets_many": [(3, (b"END",)), (3, (_V3C, _D, _V1C, _D, b"END")), (3, (_V2C, _D, _V3C, _D, _V1C, _D, b"END"))],
    "set_many": [(3, (b"STORED", b"NOT_STORED", b"STORED")), (3, (b"NOT_STORED", b"NOT_STORED", b"NOT_STORED"))],
    "delete_many": [(3, (b"DELETED", b"NOT_FOUND", b"DELETED"))],
    "stats": [(0, (b"STAT pid 1", b"STAT uptime 2", b"STAT curr_items 3", b"STAT version 1.6.21", b"END"))],
}


# the wall clocks a module may read the time from: the failover / idle-expiry rules need the readings to be comparable
# and non-decreasing, which all of these are (time.monotonic even under clock adjustments)
CLOCKS = ("time.time", "time.monotonic", "time.perf_counter")
