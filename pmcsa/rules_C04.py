"""C04 - what is stored is what is fetched: values and keys survive the round trip (partial: framing and key mapping)."""
import ast

from .model import AnalysisError, node_src, is_self_attr, call_name
from .report import walk_no_nested
from . import wire, spec, exchange

LEVEL = "other"
LEVEL_TEXT = (
    "Structural necessary conditions of the round trip: the length prefix and the data block of every store command "
    "are the same converted value (R1); caller-supplied iterables are traversed once or materialised first (R2); the "
    "fetch path maps the prefixed wire key back to the caller's own key object, deserialises with that key, the bytes "
    "of the same VALUE line and its flags, and returns the found value itself rather than a truthiness-filtered one (R3); "
    "store results are keyed by the caller's key; every key-addressed command applies the configured prefix (R4). "
    "Bit-for-bit equality of values of every size, serializer round trips (see C15) and 'exactly once' for multi-key "
    "replies against a server model are not decided."
)
TRUSTED = ["CPython ast", "pmcsa/wire.py fragment transformers"]


def run(chk):
    prog = chk.prog
    # ------------------------------------------------------------------ R1 length-prefix coupling
    r1 = chk.rule("C04.R1", "length-prefix coupling: in every store command LEN(d) and DATA(d) are the same value d, taken after the bytes conversion")
    n = 0
    for m in wire.wire_methods(prog):
        verb = spec.METHOD_VERB.get(m.name, m.name)
        if verb not in spec.STORE_VERBS + ("cas",):
            continue
        dom = wire.evaluate(prog, m)
        bad = None
        seen = 0
        for ev in dom.events:
            for cmd in wire.commands_of(ev["wire"]):
                if not cmd:
                    continue
                lens = [f for f in cmd if f[0] == "len"]
                datas = [f for f in cmd if f[0] == "data"]
                seen += 1
                if len(lens) != 1 or len(datas) != 1:
                    bad = bad or ("the command has %d length fields and %d data blocks (%r)" % (len(lens), len(datas), wire.render(cmd)))
                    continue
                ld, dd = lens[0][1], datas[0][1]
                if isinstance(ld, wire.AsBytes):
                    ld = wire.DataB(ld.of, "asis")
                if ld != dd:
                    bad = bad or ("the length written is that of `%s` but the block sent is `%s`: when they differ in byte length (non-bytes values, multi-byte encodings) the server frames the value wrongly and parses the rest as commands" % (wire.describe(ld), wire.describe(dd)))
                elif not isinstance(dd, wire.DataB):
                    bad = bad or "the data block `%s` is not a bytes-converted value" % wire.describe(dd)
        n += seen
        r1.expect(bad is None and seen > 0, "Client.%s: %d store variants, length and block are the same converted value" % (m.name, seen), "Client.%s:length-data-coupling" % m.name, "Client.%s: %s" % (m.name, bad or "no store variant derived"), fn=m, node=m.node)
    r1.floor("store command variants", n, 14)

    # ------------------------------------------------------------------ R2 one pass over caller iterables
    r2 = chk.rule("C04.R2", "caller-supplied key collections are traversed at most once unless materialised first")
    targets = []
    for cname in ("Client", "HashClient", "PooledClient"):
        for mname in ("get_many", "gets_many", "delete_many"):
            f = prog.method(cname, mname, required=False)
            if f is not None:
                targets.append((f, f.pos_params()[0].name))
    fetch = [f for f in exchange.reading_exchange_functions(prog) if f.param("noreply") is None]
    for f in fetch:
        if f.param("keys") is not None:
            targets.append((f, "keys"))
    r2.floor("functions taking a caller-supplied key collection", len(targets), 7)
    for f, pname in targets:
        uses = _consuming_uses(f, pname)
        r2.expect(len(uses) <= 1, "%s consumes `%s` %d time(s)" % (f.qualname, pname, len(uses)), "%s:iterates-%s-twice" % (f.qualname, pname), "%s traverses the caller's `%s` %d times (%s) without materialising it first: with a generator or other one-shot iterable the later passes see nothing, so keys are silently lost or not mapped back" % (f.qualname, pname, len(uses), "; ".join("`%s`" % node_src(u, 50) for u in uses)), fn=f, node=uses[1] if len(uses) > 1 else f.node)

    # ------------------------------------------------------------------ R3 key remapping / value identity on the fetch path
    r3 = chk.rule("C04.R3", "fetch: results are keyed by the caller's own key object, deserialised with that key, the bytes read for the same VALUE line and its flags; single-key reads return the found value itself")
    for f in fetch:
        _check_fetch_mapping(prog, f, r3)
    for mname in ("get", "gat", "gets", "gats"):
        f = prog.method("Client", mname)
        rets = sorted([r for r in walk_no_nested(f.node) if isinstance(r, ast.Return) and r.value is not None], key=lambda r: r.lineno)
        v = rets[-1].value if rets else None
        ok = isinstance(v, ast.Call) and isinstance(v.func, ast.Attribute) and v.func.attr == "get" and len(v.args) == 2 and isinstance(v.args[0], ast.Name) and v.args[0].id == f.pos_params()[0].name
        r3.expect(ok, "Client.%s returns result.get(key, default)" % mname, "Client.%s:value-filtered" % mname, "Client.%s returns `%s` rather than the found item itself (result.get(key, default)): a stored value that is falsy or otherwise special (b'', 0, '', [], False) comes back as the default" % (mname, node_src(v) if v is not None else None), fn=f, node=rets[-1] if rets else f.node)
    store = [f for f in exchange.exchange_functions(prog) if f.param("values") is not None]
    for f in store:
        loops = [n for n in walk_no_nested(f.node) if isinstance(n, ast.For) and isinstance(n.iter, ast.Call) and isinstance(n.iter.func, ast.Attribute) and n.iter.func.attr == "items"]
        ok = False
        why = "no loop over values.items()"
        if len(loops) == 1 and isinstance(loops[0].target, ast.Tuple) and isinstance(loops[0].target.elts[0], ast.Name):
            kv = loops[0].target.elts[0].id
            body = loops[0].body
            app = [(i, s) for i, s in enumerate(body) if isinstance(s, ast.Expr) and isinstance(s.value, ast.Call) and isinstance(s.value.func, ast.Attribute) and s.value.func.attr == "append" and s.value.args and isinstance(s.value.args[0], ast.Name) and s.value.args[0].id == kv]
            rebind = [i for i, s in enumerate(body) if isinstance(s, ast.Assign) and any(isinstance(t, ast.Name) and t.id == kv for t in s.targets)]
            ok = len(app) >= 1 and (not rebind or app[0][0] < min(rebind))
            why = "the caller's key is recorded after `%s` was re-bound to the prefixed wire key" % kv if app else "the caller's key is never recorded"
        r3.expect(ok, "%s records the caller's key before prefixing" % f.qualname, "%s:results-keyed-by-wire-key" % f.qualname, "%s: %s, so results are reported under a key the caller never passed" % (f.qualname, why), fn=f, node=f.node)

    # ------------------------------------------------------------------ R4 prefix symmetry
    r4 = chk.rule("C04.R4", "prefix symmetry: every key-addressed command validates and sends its key with self.key_prefix")
    prefix_symmetry(prog, r4)
    from .rules_C20 import wrapper_returns

    wrapper_returns(prog, r4)
    # ------------------------------------------------------------------ R5 serializer tables (re-run of the C15 rules)
    r5 = chk.rule("C04.R5", "values written through the pickle / compressed serializers are read back through the inverse decoder: the C15 dispatch and compression-flag tables hold")
    from . import rules_C15, report

    sub = report.Check("C04", prog, tier=chk.tier, seed=chk.seed)
    rules_C15.run(sub)
    n_sub = 0
    for r in sub.rules:
        if r.id in ("C15.R2", "C15.R3", "C15.R5"):
            n_sub += r.obligations
            for fnd in r.findings:
                r5.fail("via-" + fnd.key, "a stored value does not come back: " + fnd.msg, file=fnd.file, line=fnd.line)
    r5.ok("serializer writer/reader tables and the COMPRESSED flag decision agree (%d obligations of C15.R2/R3/R5 re-checked)" % n_sub)
    # the prefix never leaks into results: fetch results are keyed through the remap (R3); stats/cache_memlimit use b""
    chk.assume("a faithful memcached returns exactly the bytes it was given; serializer round trips are C15")


def prefix_symmetry(prog, r4):
    n_k = 0
    for m in wire.wire_methods(prog):
        first = m.pos_params()[0].name if m.pos_params() else None
        if first not in ("key", "keys", "values"):
            continue
        dom = wire.evaluate(prog, m)
        bad = None
        cnt = 0
        for ev in dom.events:
            for cmd in wire.commands_of(ev["wire"]):
                for fr in _flat(cmd):
                    if fr[0] == "key":
                        cnt += 1
                        if fr[2] != wire.SelfAttr("key_prefix"):
                            bad = bad or "a key is validated and sent with prefix %s instead of self.key_prefix: the item lives under another name than the one set()/get() use, so it is not found (or found by the wrong client)" % wire.describe(fr[2])
        n_k += cnt
        r4.expect(bad is None and cnt > 0, "Client.%s: %d key fragment(s), all with self.key_prefix" % (m.name, cnt), "Client.%s:key-prefix" % m.name, "Client.%s: %s" % (m.name, bad or "no key reaches the wire"), fn=m, node=m.node)
    r4.floor("key fragments", n_k, 18)


def _flat(frags):
    for f in frags:
        if f[0] == "rep":
            for p in f[1]:
                yield from _flat(wire.to_frags(p))
        else:
            yield f


def _consuming_uses(f, pname):
    """Expressions that traverse the iterable `pname` (in source order), up to a materialising re-binding."""
    uses = []
    stmts = sorted([n for n in walk_no_nested(f.node) if isinstance(n, ast.stmt)], key=lambda n: (n.lineno, n.col_offset))
    rebound_at = None
    for s in stmts:
        if isinstance(s, ast.Assign) and any(isinstance(x, ast.Name) and x.id == pname for t in s.targets for x in ast.walk(t)):
            v = s.value
            if isinstance(v, ast.Call) and call_name(v) in ("list", "tuple", "dict.fromkeys", "set", "frozenset", "sorted") and v.args and isinstance(v.args[0], ast.Name) and v.args[0].id == pname:
                uses.append(v)
            # from here on the name denotes another value (materialised copy or something else)
            rebound_at = (s.lineno, s.col_offset)
            break
        if isinstance(s, ast.For) and any(isinstance(x, ast.Name) and x.id == pname for x in ast.walk(s.target)):
            rebound_at = (s.lineno, s.col_offset)
            break
    def before(n):
        return rebound_at is None or (n.lineno, n.col_offset) < rebound_at

    seen = set(id(u) for u in uses)
    for n in sorted(walk_no_nested(f.node), key=lambda n: (getattr(n, "lineno", 0), getattr(n, "col_offset", 0))):
        if not hasattr(n, "lineno") or not before(n):
            continue
        if isinstance(n, ast.For) and isinstance(n.iter, ast.Name) and n.iter.id == pname:
            uses.append(n.iter)
        elif isinstance(n, (ast.ListComp, ast.SetComp, ast.DictComp, ast.GeneratorExp)):
            for g in n.generators:
                if isinstance(g.iter, ast.Name) and g.iter.id == pname:
                    uses.append(n)
        elif isinstance(n, ast.Call) and id(n) not in seen:
            cn = call_name(n)
            args = list(n.args) + [k.value for k in n.keywords]
            direct = [a for a in args if isinstance(a, ast.Name) and a.id == pname]
            if direct and cn not in ("isinstance", "len", "bool", "type", "id", "iter"):
                uses.append(n)
    # de-duplicate nested reports
    out = []
    for u in uses:
        if not any(u is not v and any(x is u for x in ast.walk(v)) for v in uses):
            out.append(u)
    return out


def _check_fetch_mapping(prog, f, r3):
    """remapped = dict(zip(<checked keys built from keys>, keys)); extract: original = remapped[wire key];
    deserialize(original, value-from-_readvalue, int(flags)); result[original] = value."""
    zips = [c for c in walk_no_nested(f.node) if isinstance(c, ast.Call) and call_name(c) == "zip"]
    ok = False
    why = "no dict(zip(prefixed keys, caller keys)) found"
    for z in zips:
        if len(z.args) == 2 and all(isinstance(a, ast.Name) for a in z.args):
            pk, ck = z.args[0].id, z.args[1].id
            comp = [n for n in walk_no_nested(f.node) if isinstance(n, ast.Assign) and any(isinstance(t, ast.Name) and t.id == pk for t in n.targets) and isinstance(n.value, ast.ListComp)]
            if comp:
                c = comp[0].value
                g = c.generators[0]
                ok = isinstance(g.iter, ast.Name) and g.iter.id == ck and isinstance(c.elt, ast.Call) and call_name(c.elt) == "self.check_key" and not g.ifs
                why = "the prefixed keys are not built by validating each caller key in order" if not ok else ""
    r3.expect(ok, "%s maps each prefixed key back to the caller's key object, in order" % f.qualname, "%s:key-remap" % f.qualname, "%s: %s" % (f.qualname, why), fn=f, node=f.node)
    ev = prog.method("Client", "_extract_value", required=False)
    if ev is None:
        r3.fail("Client._extract_value:missing", "the value extraction helper vanished", fn=f)
        return
    des = [c for c in walk_no_nested(ev.node) if isinstance(c, ast.Call) and call_name(c) == "self.serde.deserialize"]
    rv = [n for n in walk_no_nested(ev.node) if isinstance(n, ast.Assign) and isinstance(n.value, ast.Call) and isinstance(n.value.func, ast.Name) and n.value.func.id == "_readvalue"]
    lookup = [n for n in walk_no_nested(ev.node) if isinstance(n, ast.Assign) and isinstance(n.value, ast.Subscript) and isinstance(n.value.value, ast.Name) and n.value.value.id == "remapped_keys"]
    ok = len(des) == 1 and len(rv) == 1 and len(lookup) == 1
    why = "deserialize/_readvalue/remap lookup not found exactly once"
    if ok:
        d = des[0]
        orig = lookup[0].targets[0].id if isinstance(lookup[0].targets[0], ast.Name) else None
        wirekey = lookup[0].value.slice.id if isinstance(lookup[0].value.slice, ast.Name) else None
        valvar = rv[0].targets[0].elts[1].id if isinstance(rv[0].targets[0], ast.Tuple) and len(rv[0].targets[0].elts) == 2 and isinstance(rv[0].targets[0].elts[1], ast.Name) else None
        sizearg = rv[0].value.args[2] if len(rv[0].value.args) > 2 else None
        # names bound by splitting the VALUE line
        split = [n for n in walk_no_nested(ev.node) if isinstance(n, ast.Assign) and isinstance(n.value, ast.Call) and isinstance(n.value.func, ast.Attribute) and n.value.func.attr == "split" and isinstance(n.targets[0], ast.Tuple)]
        # VALUE <key> <flags> <bytes> [<cas>]: positions 1..3 of every split of the line
        pos = [[e.id if isinstance(e, ast.Name) else None for e in s_.targets[0].elts] for s_ in split]
        names_ok = bool(pos) and all(len(x) >= 4 and x[1] == wirekey for x in pos) and len({(x[2], x[3]) for x in pos}) == 1
        flagsvar, sizevar = (pos[0][2], pos[0][3]) if names_ok else (None, None)
        a = d.args
        ok = (
            orig is not None and valvar is not None and names_ok and len(a) == 3
            and isinstance(a[0], ast.Name) and a[0].id == orig
            and isinstance(a[1], ast.Name) and a[1].id == valvar
            and isinstance(a[2], ast.Call) and call_name(a[2]) == "int" and isinstance(a[2].args[0], ast.Name) and a[2].args[0].id == flagsvar
            and isinstance(sizearg, ast.Call) and call_name(sizearg) == "int" and isinstance(sizearg.args[0], ast.Name) and sizearg.args[0].id == sizevar
        )
        why = "deserialize is not called as deserialize(caller's key, bytes read for this VALUE line, int(flags of this line))"
        if ok:
            rets = [r for r in walk_no_nested(ev.node) if isinstance(r, ast.Return) and isinstance(r.value, ast.Tuple)]
            ok = bool(rets) and all(isinstance(r.value.elts[0], ast.Name) and r.value.elts[0].id == orig for r in rets)
            why = "the key returned to the fetch loop is not the caller's key"
    r3.expect(ok, "_extract_value: deserialize(original_key, value of this line, int(flags)); returns the caller's key", "Client._extract_value:mapping", "Client._extract_value: %s" % why, fn=ev, node=ev.node)
    # the fetch loop stores under the key returned by _extract_value
    call = [n for n in walk_no_nested(f.node) if isinstance(n, ast.Assign) and isinstance(n.value, ast.Call) and call_name(n.value) == "self._extract_value" and isinstance(n.targets[0], ast.Tuple)]
    ok = False
    if len(call) == 1 and len(call[0].targets[0].elts) == 3 and all(isinstance(e, ast.Name) for e in call[0].targets[0].elts):
        k, v, b = [e.id for e in call[0].targets[0].elts]
        st = [n for n in walk_no_nested(f.node) if isinstance(n, ast.Assign) and isinstance(n.targets[0], ast.Subscript) and isinstance(n.targets[0].slice, ast.Name) and n.targets[0].slice.id == k and isinstance(n.value, ast.Name) and n.value.id == v]
        ok = len(st) == 1
    r3.expect(ok, "%s stores result[key] = value for the pair returned by _extract_value" % f.qualname, "%s:result-store" % f.qualname, "%s does not store the extracted value under the extracted key" % f.qualname, fn=f, node=f.node)
