#!/venv/bin/python
"""Apply each seeded change to a scratch copy of /repo HEAD and run the claimed checks on it (--root).
Writes /verif/seeded/RESULTS.md.  Never touches /repo."""
import json, os, subprocess, sys, shutil, re
from concurrent.futures import ThreadPoolExecutor
sys.path.insert(0, "/verif")
from pmcsa import registry
import importlib
importlib.reload(registry)
SEEDED = "/verif/seeded"
only = sys.argv[1:] 
def claimed():
    out = subprocess.run(["/venv/bin/python", "-c", "import sys; sys.path.insert(0,'/verif'); from pmcsa import registry; print(' '.join(sorted(registry.CLAIMED)))"], capture_output=True, text=True).stdout.split()
    return out
PROPS = claimed()
def one(sid):
    d = os.path.join(SEEDED, sid)
    wt = "/tmp/wt/seedrun_" + sid
    shutil.rmtree(wt, ignore_errors=True); os.makedirs(wt)
    subprocess.run("git -C /repo archive HEAD | tar -x -C %s" % wt, shell=True, check=True)
    meta = json.load(open(os.path.join(d, "meta.json")))
    r = subprocess.run("patch -p1 -s --dry-run < %s/patch.diff" % d, shell=True, cwd=wt, capture_output=True, text=True)
    if r.returncode != 0:
        # written against an older commit and touching code a later `fix:` changed: applied to that commit instead
        base = meta.get("repo_head_when_seeded", "d534e3c")
        shutil.rmtree(wt, ignore_errors=True); os.makedirs(wt)
        subprocess.run("git -C /repo archive %s | tar -x -C %s" % (base, wt), shell=True, check=True)
    r = subprocess.run("patch -p1 -s < %s/patch.diff" % d, shell=True, cwd=wt, capture_output=True, text=True)
    if r.returncode != 0:
        shutil.rmtree(wt, ignore_errors=True)
        return sid, None, "patch does not apply: " + r.stdout + r.stderr
    res = {}
    for p in PROPS:
        r = subprocess.run(["./check", p, "--root", wt], cwd="/verif", capture_output=True, text=True)
        keys = re.findall(r"\[(C\d\d\.R[\w.]+:[^\]]*)\]", r.stdout)
        errs = [l for l in r.stdout.splitlines() if l.startswith("ANALYSIS-ERROR")]
        res[p] = (r.returncode, keys, errs)
    shutil.rmtree(wt, ignore_errors=True)
    return sid, meta, res
sids = sorted(s for s in os.listdir(SEEDED) if os.path.isdir(os.path.join(SEEDED, s)) and (not only or s in only or s[:3] in only))
with ThreadPoolExecutor(16) as ex:
    results = list(ex.map(one, sids))
lines = ["# Seeded changes vs checks", "", "Produced by tools/run_seeds.py: each patch applied to a scratch copy of /repo HEAD, every claimed check run with --root.", "",
         "| seed | property | own check | caught by (rule:construct) | other checks that fire |", "|---|---|---|---|---|"]
caught = 0
for sid, meta, res in results:
    if meta is None:
        lines.append("| %s | ? | - | %s | |" % (sid, res)); continue
    p = meta["property"]
    own = res.get(p)
    if own is None:
        own_s, keys = "not claimed", []
    else:
        own_s = {0: "MISSED", 1: "caught", 2: "analysis-error"}.get(own[0], "killed")
        keys = own[1] or own[2]
    others = ["%s(%s)" % (q, {1: "viol", 2: "err"}.get(rc, "killed")) for q, (rc, k, e) in res.items() if q != p and rc != 0]
    # remember, per check, how this seeded change is answered: the thorough tier re-checks it in memory
    if not only or True:
        meta["detection"] = {q: {0: "silent", 1: "violation", 2: "analysis-error"}.get(rc, "killed") for q, (rc, k, e) in res.items()}
        meta["detected_by_rules"] = {q: sorted({x.split(":")[0] for x in k})[:6] for q, (rc, k, e) in res.items() if rc == 1}
        json.dump(meta, open(os.path.join(SEEDED, sid, "meta.json"), "w"), indent=1)
    anyc = (own and own[0] == 1) or any(rc == 1 for q, (rc, k, e) in res.items())
    caught += 1 if anyc else 0
    lines.append("| %s | %s | %s | %s | %s |" % (sid, p, own_s, "; ".join(sorted(set(keys)))[:300], ", ".join(others)))
    print(sid, p, own_s, sorted(set(keys))[:3], others)
lines.append("")
lines.append("%d of %d seeded changes are reported by at least one check." % (caught, len(results)))
if not only:
    open(os.path.join(SEEDED, "RESULTS.md"), "w").write("\n".join(lines) + "\n")
else:
    # a partial run: its rows replace / join the rows of the last full table, the closing count is recomputed
    path = os.path.join(SEEDED, "RESULTS.md")
    old = open(path).read().splitlines() if os.path.exists(path) else lines[:6]
    rows = {l.split("|")[1].strip(): l for l in old if l.startswith("| C")}
    for l in lines:
        if l.startswith("| C"):
            rows[l.split("|")[1].strip()] = l
    head = [l for l in old[:6]] if len(old) >= 6 else lines[:6]
    body = [rows[k] for k in sorted(rows)]
    n_any = sum(1 for l in body if "| caught |" in l or "(viol)" in l)
    open(path, "w").write("\n".join(head + body + ["", "%d of %d seeded changes are reported by at least one check." % (n_any, len(body))]) + "\n")
print("%d/%d caught" % (caught, len(results)))
