"""Exact small collections for the path interpreter.

A rule that has to follow *which* keys end up in a list or a dict (the store exchange: `keys.append(key)` ...
`{k: True for k in keys}` ... `results[key] = ...` ... `[k for k, v in results.items() if not v]`) mixes this class into
its domain.  Lists / tuples are TupleV (exact sequences of abstract values), dicts are DictV (insertion ordered pairs).
`for` loops over an exact collection are unrolled exactly (an index per loop site lives in the state), comprehensions
over one are evaluated per element.  Everything that is not understood degrades to TOP, never to a wrong exact value.

Aliasing is not tracked: a mutating method call (`append`, `extend`, `update`, item assignment) updates the *name* it
is applied to.  A collection that was bound to a second name before being mutated is degraded to TOP on both names."""
import ast
from collections import namedtuple

from .paths import TOP, NONE, NOVALUE, Const, TupleV, Opaque, Exc, ORD

DictV = namedtuple("DictV", "items")  # tuple of (key value, value) pairs, insertion ordered, keys pairwise distinct
Bound = namedtuple("Bound", "obj attr recv")  # a method of an exact collection; recv = receiver name or None
GenV = namedtuple("GenV", "site items")  # a one-shot iterator (generator expression, iter(...)); ("gen", site) in the state = consumed
CONSUMERS = ("list", "tuple", "set", "frozenset", "sorted", "dict", "sum", "any", "all", "max", "min", "enumerate", "zip", "map", "filter", "reversed")


def distinct(a, b):
    """Surely different abstract values (symbolic keys are Opaque and pairwise distinct by construction)."""
    if a == b:
        return False
    if isinstance(a, Const) and isinstance(b, Const):
        return True
    if isinstance(a, Opaque) and isinstance(b, Opaque):
        return True
    if isinstance(a, (Const, Opaque)) and isinstance(b, (Const, Opaque)):
        return True
    return False


def dict_get(d, k):
    """-> ('hit', v) | ('miss',) | ('unknown',)"""
    unknown = False
    for kk, vv in d.items:
        if kk == k and kk is not TOP:
            return ("hit", vv)
        if not distinct(kk, k):
            unknown = True
    return ("unknown",) if unknown else ("miss",)


MAX_LEN = 6  # widening: a collection that keeps growing (a loop over an unknown iterable) becomes TOP


def dict_set(d, k, v):
    items = list(d.items)
    if len(items) >= MAX_LEN:
        return TOP
    for i, (kk, vv) in enumerate(items):
        if kk == k and kk is not TOP:
            items[i] = (kk, v)
            return DictV(tuple(items))
        if not distinct(kk, k):
            return TOP
    items.append((k, v))
    return DictV(tuple(items))


class ExactCollections:
    """Mixin; list it *before* the Domain base class."""

    comp_exact = True

    def mark_imprecise(self, state, node):
        return state

    def consumed_call(self, node, fval, args, kwargs, state):
        """A consumer the mixin does not model itself, with its one-shot arguments already replaced by what it sees:
        the domain's own `call` continues (it must not come back to coll_call with a GenV)."""
        return [("ok", TOP, state)]

    # ---- construction -----------------------------------------------------------------
    def make_list(self, items, node, state):
        return TupleV(tuple(items))

    def make_dict(self, keys, values, node, state):
        if len(keys) != len(values):
            return TOP
        d = DictV(())
        for k, v in zip(keys, values):
            d = dict_set(d, k, v)
            if d is TOP:
                return TOP
        return d

    def truth(self, v, state=None):
        if isinstance(v, DictV):
            return len(v.items) > 0
        if isinstance(v, (Bound, GenV)):
            return True  # an iterator object is truthy whether or not anything is left in it
        return super().truth(v, state)

    def never_none(self, v):
        return isinstance(v, (DictV, Bound, GenV)) or super().never_none(v)

    # ---- methods -------------------------------------------------------------------------
    def coll_attr(self, objval, node):
        if isinstance(objval, (TupleV, DictV)):
            recv = node.value.id if isinstance(node.value, ast.Name) else None
            return Bound(objval, node.attr, recv)
        return None

    def coll_call(self, node, fval, args, kwargs, state):
        """-> result list or None when this is not a collection operation."""
        if isinstance(fval, Bound):
            obj, attr, recv = fval

            def mutate(new):
                if recv is None:
                    return [("ok", NONE, state)]
                return [("ok", NONE, self.name_store(recv, new, state, node))]

            if isinstance(obj, TupleV):
                if attr == "append" and len(args) == 1:
                    return mutate(TupleV(obj.items + (args[0],)) if len(obj.items) < MAX_LEN else TOP)
                if attr == "extend" and len(args) == 1:
                    return mutate(TupleV(obj.items + args[0].items) if isinstance(args[0], TupleV) and len(obj.items) + len(args[0].items) <= MAX_LEN else TOP)
                if attr in ("copy",) and not args:
                    return [("ok", obj, state)]
                if attr in ("index", "count"):
                    return [("ok", TOP, state)]
                return mutate(TOP) if attr in ("insert", "pop", "remove", "clear", "sort", "reverse") else [("ok", TOP, state)]
            if isinstance(obj, DictV):
                if attr == "items" and not args:
                    return [("ok", TupleV(tuple(TupleV((k, v)) for k, v in obj.items)), state)]
                if attr == "keys" and not args:
                    return [("ok", TupleV(tuple(k for k, v in obj.items)), state)]
                if attr == "values" and not args:
                    return [("ok", TupleV(tuple(v for k, v in obj.items)), state)]
                if attr == "copy" and not args:
                    return [("ok", obj, state)]
                if attr == "get" and 1 <= len(args) <= 2:
                    r = dict_get(obj, args[0])
                    if r[0] == "hit":
                        return [("ok", r[1], state)]
                    if r[0] == "miss":
                        return [("ok", args[1] if len(args) == 2 else NONE, state)]
                    return [("ok", TOP, state)]
                if attr == "update" and len(args) == 1 and isinstance(args[0], DictV) and not kwargs:
                    d = obj
                    for k, v in args[0].items:
                        d = dict_set(d, k, v) if d is not TOP else TOP
                    return mutate(d)
                if attr == "setdefault" and len(args) == 2:
                    r = dict_get(obj, args[0])
                    if r[0] == "hit":
                        return [("ok", r[1], state)]
                    if r[0] == "miss":
                        return [("ok", args[1], self.name_store(recv, dict_set(obj, args[0], args[1]), state, node) if recv else state)]
                    return mutate(TOP)
                return mutate(TOP) if attr in ("pop", "popitem", "clear", "update", "setdefault") else [("ok", TOP, state)]
        f = node.func
        if any(isinstance(a, GenV) for a in args):
            # a consumer of a one-shot iterator sees what is left of it and uses it up
            consumer = (isinstance(f, ast.Name) and f.id in CONSUMERS) or (isinstance(f, ast.Attribute) and f.attr in ("join", "extend", "update", "fromkeys", "writelines"))
            if consumer:
                new_args = []
                for a in args:
                    if isinstance(a, GenV):
                        seq, state = self.consume(a, state)
                        a = TupleV(seq)
                    new_args.append(a)
                r = self.coll_call(node, fval, new_args, kwargs, state)
                if r is not None:
                    return r
                return self.consumed_call(node, fval, new_args, kwargs, state)
        if isinstance(f, ast.Name) and not kwargs:
            if f.id == "iter" and len(args) == 1 and isinstance(args[0], (TupleV, DictV)):
                return [("ok", GenV((node.lineno, node.col_offset), self._seq(args[0])), state)]
            if f.id == "len" and len(args) == 1 and isinstance(args[0], (TupleV, DictV)):
                return [("ok", Const(len(args[0].items)), state)]
            if f.id in ("list", "tuple") and len(args) == 1:
                if isinstance(args[0], TupleV):
                    return [("ok", args[0], state)]
                if isinstance(args[0], DictV):
                    return [("ok", TupleV(tuple(k for k, v in args[0].items)), state)]
            if f.id in ("list", "tuple") and not args:
                return [("ok", TupleV(()), state)]
            if f.id == "dict" and not args:
                return [("ok", DictV(()), state)]
            if f.id == "dict" and len(args) == 1 and isinstance(args[0], DictV):
                return [("ok", args[0], state)]
            if f.id == "dict" and len(args) == 1 and isinstance(args[0], TupleV) and all(isinstance(p, TupleV) and len(p.items) == 2 for p in args[0].items):
                d = DictV(())
                for p in args[0].items:
                    d = dict_set(d, p.items[0], p.items[1]) if d is not TOP else TOP
                return [("ok", d, state)]
            if f.id == "zip" and len(args) == 2 and all(isinstance(a, TupleV) for a in args) and len(args[0].items) == len(args[1].items):
                return [("ok", TupleV(tuple(TupleV((a, b)) for a, b in zip(args[0].items, args[1].items))), state)]
            if f.id == "enumerate" and len(args) == 1 and isinstance(args[0], TupleV):
                return [("ok", TupleV(tuple(TupleV((Const(i), a)) for i, a in enumerate(args[0].items))), state)]
            if f.id in ("sorted", "reversed", "set", "frozenset") and args and isinstance(args[0], (TupleV, DictV)):
                return [("ok", TOP, state)]
        if isinstance(f, ast.Attribute) and f.attr == "fromkeys" and isinstance(f.value, ast.Name) and f.value.id == "dict" and 1 <= len(args) <= 2 and isinstance(args[0], TupleV):
            d = DictV(())
            for k in args[0].items:
                d = dict_set(d, k, args[1] if len(args) == 2 else NONE) if d is not TOP else TOP
            return [("ok", d, state)]
        return None

    def unpack(self, value, n, node, state):
        seq = self._seq(value, state) if not isinstance(value, GenV) else None
        if seq is not None and not isinstance(value, DictV):
            if len(seq) != n:
                return None, True
            return list(seq), False
        return super().unpack(value, n, node, state)

    # ---- subscripts -----------------------------------------------------------------------
    def coll_subscript_load(self, objval, idxval, node, state):
        """-> (value, may_raise) or None"""
        if isinstance(objval, DictV):
            r = dict_get(objval, idxval)
            if r[0] == "hit":
                return r[1], False
            if r[0] == "miss":
                return NOVALUE, "KeyError"
            return TOP, True
        if isinstance(objval, TupleV) and isinstance(node.slice, ast.Slice):
            from .model import fold, NotConst

            try:
                lo, hi, st = [None if b is None else fold(b) for b in (node.slice.lower, node.slice.upper, node.slice.step)]
            except NotConst:
                return TOP, False
            if all(b is None or (isinstance(b, int) and not isinstance(b, bool)) for b in (lo, hi, st)) and st != 0:
                return TupleV(objval.items[slice(lo, hi, st)]), False
            return TOP, False
        if isinstance(objval, TupleV) and isinstance(idxval, Const) and isinstance(idxval.v, int) and not isinstance(idxval.v, bool):
            if -len(objval.items) <= idxval.v < len(objval.items):
                return objval.items[idxval.v], False
            return NOVALUE, "IndexError"
        return None

    def subscript_store(self, objval, idxval, value, node, state):
        if isinstance(objval, DictV) and isinstance(node.value, ast.Name):
            return self.name_store(node.value.id, dict_set(objval, idxval, value), state, node)
        if isinstance(objval, TupleV) and isinstance(node.value, ast.Name):
            return self.name_store(node.value.id, TOP, state, node)
        return super().subscript_store(objval, idxval, value, node, state)

    # ---- iteration -------------------------------------------------------------------------------
    def _seq(self, itval, state=None):
        if isinstance(itval, TupleV):
            return itval.items
        if isinstance(itval, DictV):
            return tuple(k for k, v in itval.items)
        if isinstance(itval, Const) and isinstance(itval.v, (tuple, list)):
            return tuple(Const(x) for x in itval.v)
        if isinstance(itval, GenV):
            if state is not None and state.get(("gen", itval.site), 0):
                return ()
            return itval.items
        return None

    def consume(self, v, state):
        """The elements a consumer of `v` sees, and the state afterwards (a one-shot iterator is used up)."""
        seq = self._seq(v, state)
        if isinstance(v, GenV):
            state = state.set(("gen", v.site), 1)
        return seq, state

    def for_next(self, node, itval, state):
        key = ("iter", node.lineno, getattr(node, "col_offset", 0))
        midway = isinstance(state.get(key, None), int) and not isinstance(node, ast.comprehension)
        seq = self._seq(itval, None if midway else state)
        if seq is None:
            # an iterable whose elements are not known: whatever is counted or collected in this loop is a guess
            res = super().for_next(node, itval, state)
            return [(v, self.mark_imprecise(s, node)) for v, s in res]
        if isinstance(node, ast.comprehension):
            st = state.set(("gen", itval.site), 1) if isinstance(itval, GenV) else state
            return [(v, st) for v in seq]
        i = state.get(key, 0)
        if i >= len(seq):
            return []
        st = state.set(key, i + 1)
        if isinstance(itval, GenV):
            st = st.set(("gen", itval.site), 1)
        return [(seq[i], st)]

    def for_exhausted(self, node, itval, state):
        key = ("iter", node.lineno, getattr(node, "col_offset", 0))
        midway = isinstance(state.get(key, None), int)
        seq = self._seq(itval, None if midway else state)
        if seq is None:
            res = super().for_exhausted(node, itval, state)
            return self.mark_imprecise(res, node) if res is not None else None
        if state.get(key, 0) < len(seq):
            return None
        return state.drop(key) if state.has(key) else state

    def comprehension(self, node, elem_values, state):
        if not self.comp_exact:
            return TOP
        gens = node.generators
        if not all(self._seq(getattr(g, "_itval", None)) is not None for g in gens):
            return TOP
        if isinstance(node, ast.DictComp):
            d = DictV(())
            for k, v in elem_values:
                d = dict_set(d, k, v) if d is not TOP else TOP
            return d
        if isinstance(node, ast.ListComp):
            return TupleV(tuple(v[0] for v in elem_values))
        if isinstance(node, ast.GeneratorExp):
            return GenV((node.lineno, node.col_offset), tuple(v[0] for v in elem_values))
        return TOP
