"""C18 - FallbackClient: reads fall through in order, writes touch only the primary (decided)."""
import ast
from collections import namedtuple

from .model import AnalysisError, node_src, is_self_attr, call_name
from .paths import Interp, Domain, Env, TOP, NONE, Const, Exc, ORD, fmt_trace, Opaque, FuncRef
from .report import walk_no_nested
from . import rules_C07

LEVEL = "other"  # one obligation is open (known finding: gets hit test), so no proof-level claim
LEVEL_TEXT = (
    "FallbackClient's methods are straight-line delegations or one loop over self.caches; the property is decided by "
    "structure rules (writers: one call on caches[0], own name, arguments in Client's parameter order, no iteration) and "
    "a path rule on the readers (in-order loop, same-named call once per iteration, return at the first hit, nothing "
    "after), plus comparing each reader's hit test with the delegate's miss value."
)
TRUSTED = ["CPython ast", "pmcsa/paths.py", "caches have the Client interface (module docstring of fallback.py)"]

WRITERS = ("set", "add", "replace", "append", "prepend", "cas", "delete", "incr", "decr", "touch", "flush_all")
READERS = ("get", "get_many", "gets", "gets_many")


BoundCall = namedtuple("BoundCall", "obj attr")


class ReaderDomain(Domain):
    """A read of FallbackClient with two caches whose answers are scripted: `script` = ('miss','miss'), ('hit',),
    ('miss','hit').  Private helper methods are inlined; getattr(cache, <constant name>) is a bound method."""

    async_enabled = False
    subscript_may_raise = False
    unpack_may_raise = False
    global_keys = ("#calls", "#pos")

    def __init__(self, prog, fn, script, miss_value):
        super().__init__(prog, fn)
        self.script = script
        self.miss_value = miss_value
        self.other_cache_use = []

    def name_load(self, name, state, node=None):
        if state.has(name):
            return state.get(name)
        if name in self.fn.module.functions or name in self.prog.module("pymemcache/fallback.py").functions:
            return FuncRef(name)  # a module-level predicate passed around as a value
        if name in ("bool",):
            return Opaque("builtin:" + name)
        return TOP

    def attr_load(self, objval, node, state):
        if is_self_attr(node, "caches"):
            return Opaque("caches")
        if is_self_attr(node) and node.attr in _init_snapshots(self.prog):
            # an attribute __init__ set to caches[k]: the cache that was at that place *when the client was constructed*
            return Opaque("cache#%d@init:%s" % (_init_snapshots(self.prog)[node.attr] + 1, node.attr))
        if is_self_attr(node) and node.attr in _cache_memory(self.prog):
            return Opaque("cache-memory:" + node.attr)  # instance state some method fills with cache objects
        if isinstance(objval, Opaque) and objval.tag.startswith("cache-memory:"):
            return BoundCall(objval, node.attr)
        if isinstance(objval, Opaque) and objval.tag.startswith("cache?from:"):
            return BoundCall(objval, node.attr)
        if is_self_attr(node) and self.prog is not None:
            # a read-only property of the class (e.g. `_primary`): its getter, interpreted
            m = self.prog.method("FallbackClient", node.attr, required=False)
            if m is not None and any(d.split(".")[-1] in ("property", "cached_property") for d in m.decorators):
                res = self.inline(node, m, [], {}, state)
                if res is not None and len(res) == 1 and res[0][0] == "ok" and res[0][2] == state:
                    return res[0][1]
                return TOP
        if isinstance(objval, Opaque) and objval.tag.startswith("cache#"):
            return BoundCall(objval, node.attr)
        return TOP

    def subscript_load(self, objval, idxval, node, state):
        if objval == Opaque("caches") and isinstance(idxval, Const) and isinstance(idxval.v, int) and idxval.v >= 0:
            return Opaque("cache#%d" % (idxval.v + 1)), False
        sl = node.slice
        if isinstance(objval, Opaque) and objval.tag.startswith("cache-memory:"):
            return Opaque("cache?from:" + objval.tag[13:]), False
        if objval == Opaque("caches") and isinstance(sl, ast.Slice) and sl.upper is None and sl.step is None and (sl.lower is None or (isinstance(sl.lower, ast.Constant) and isinstance(sl.lower.value, int) and sl.lower.value >= 0)):
            return Opaque("caches@%d" % (sl.lower.value if sl.lower is not None else 0)), False  # self.caches[k:]
        return TOP, False

    def for_next(self, node, itval, state):
        if isinstance(itval, Opaque) and itval.tag.startswith("caches@"):
            k = max(state.get("#pos", 0), int(itval.tag[7:]))
            if k < 2:
                return [(Opaque("cache#%d" % (k + 1)), state.set("#pos", k + 1))]
            return []
        if itval == Opaque("caches"):
            k = state.get("#pos", 0)
            if k < 2:
                return [(Opaque("cache#%d" % (k + 1)), state.set("#pos", k + 1))]
            return []
        return [(TOP, state)]

    def for_exhausted(self, node, itval, state):
        if itval == Opaque("caches") or (isinstance(itval, Opaque) and itval.tag.startswith("caches@")):
            return state if state.get("#pos", 0) >= 2 else None
        return state

    def truth(self, v, state=None):
        if v == Opaque("hit-value"):
            return True
        return super().truth(v, state)

    def never_none(self, v):
        return v == Opaque("hit-value") or super().never_none(v)

    def call(self, node, fval, args, kwargs, state):
        name = call_name(node)
        if name == "getattr" and len(args) == 2 and isinstance(args[0], Opaque) and args[0].tag.startswith("cache#") and isinstance(args[1], Const) and isinstance(args[1].v, str):
            return [("ok", BoundCall(args[0], args[1].v), state)]
        if isinstance(fval, BoundCall) and fval.obj.tag.startswith("cache-memory:"):
            if fval.attr in ("pop", "get", "popitem", "setdefault", "__getitem__"):
                return [("ok", Opaque("cache?from:" + fval.obj.tag[13:]), state)]  # a remembered cache (or the default given)
            return [("ok", TOP, state)]
        if isinstance(fval, BoundCall):
            calls = state.get("#calls", ())
            n = len(calls)
            answer = self.script[n] if n < len(self.script) else "miss"
            rec = (fval.obj.tag, fval.attr, tuple(args), tuple(sorted(kwargs.items())))
            st = state.set("#calls", calls + (rec,))
            val = {"hit": Opaque("hit-value"), "hit-falsy": Const(b""), "unknown": TOP}.get(answer, self.miss_value)
            return [("ok", val, st)]
        if isinstance(fval, FuncRef):
            f = self.prog.module("pymemcache/fallback.py").functions.get(fval.name)
            if f is not None:
                res = self.inline(node, f, args, kwargs, state)
                if res is not None:
                    return res
        if fval == Opaque("builtin:bool") and len(args) == 1:
            t = self.truth(args[0], state)
            return [("ok", Const(t) if t is not None else TOP, state)]
        if name in ("reversed", "sorted", "list", "tuple", "iter") and args and args[0] == Opaque("caches"):
            self.other_cache_use.append(node)
            return [("ok", TOP, state)]
        if name.startswith("self._") and name.count(".") == 1 and self.prog is not None:
            m = self.prog.method("FallbackClient", name[5:], required=False)
            if m is not None:
                res = self.inline(node, m, args, kwargs, state)
                if res is not None:
                    return res
        if fval is TOP and isinstance(node.func, ast.Attribute):
            self.unknown_calls = getattr(self, "unknown_calls", 0) + 1  # a method call on a receiver the domain lost
        return [("ok", TOP, state)]


def run(chk):
    prog = chk.prog
    fb = prog.cls("FallbackClient")
    r1 = chk.rule("C18.R1", "every mutating method makes exactly one call, on self.caches[0], of its own name, with its parameters in Client's order")
    # the configured order of the caches is fixed at construction: no method removes, adds or reorders caches (a read
    # that drops a cache while walking the list skips the one behind it)
    for f in fb.methods.values():
        if f.name == "__init__":
            continue
        for n in ast.walk(f.node):
            w = None
            if isinstance(n, ast.Attribute) and isinstance(n.ctx, (ast.Store, ast.Del)) and is_self_attr(n, "caches"):
                w = "rebinds self.caches"
            elif isinstance(n, ast.Subscript) and isinstance(n.ctx, (ast.Store, ast.Del)) and is_self_attr(n.value, "caches"):
                w = "writes into self.caches"
            elif isinstance(n, ast.Call) and isinstance(n.func, ast.Attribute) and is_self_attr(n.func.value, "caches") and n.func.attr in ("remove", "pop", "append", "insert", "clear", "sort", "reverse", "extend"):
                w = "calls self.caches.%s()" % n.func.attr
            if w is not None:
                r1.fail("FallbackClient.%s:changes-cache-list" % f.name, "FallbackClient.%s %s: the caches and their order are configuration; changing the list (least of all while a read walks over it) makes later reads consult other caches than the configured ones, or skip one" % (f.name, w), fn=f, node=n)
    n_w = 0
    for name in WRITERS:
        f = prog.method(fb, name, required=False)
        if f is None:
            r1.fail("FallbackClient.%s:missing" % name, "FallbackClient lacks the mutating method %s" % name, file=fb.module.rel, line=fb.node.lineno)
            continue
        n_w += 1
        cf = prog.method("Client", name)
        # the method interpreted with two caches and its parameters as symbols: the calls it makes on caches
        dom = ReaderDomain(prog, f, ("unknown", "unknown", "unknown"), NONE)
        penv = {p.name: Opaque("param:" + p.name) for p in f.params if p.name != "self"}
        outs = Interp(dom, f.node, prog).run(Env(penv))
        problems = []
        cpos = [p.name for p in cf.pos_params()]
        mine = [p.name for p in f.pos_params()]
        exits = outs.of("ret") + outs.of("exc")
        undecided = None
        for s_, v_, t_ in exits:
            cc = s_.get("#calls", ())
            if getattr(dom, "unknown_calls", 0):
                undecided = "it calls a method on a receiver this analysis cannot trace to self.caches"
                if not cc:
                    continue
            if len(cc) != 1:
                problems.append("it makes %d calls on caches (exactly one expected)%s" % (len(cc), "".join("; a mutating call reaches %s, a fallback cache" % c[0].replace("cache#", "cache number ") for c in cc if c[0] != "cache#1")))
            for tag, attr, args, kws in cc[:1]:
                if tag.startswith("cache?from:"):
                    problems.append("the receiver comes out of self.%s, which %s with whichever cache answered a read: the mutating call can reach a fallback cache" % (tag[11:], _cache_memory(prog)[tag[11:]]))
                elif "@init:" in tag:
                    problems.append("the receiver is self.%s, the cache that was at position %s when the client was constructed, not the first of self.caches at the time of the call: once the (public, caller-owned) cache list is re-arranged, writes go to one cache and reads start at another" % (tag.split(":")[1], tag[6:].split("@")[0]))
                elif tag != "cache#1":
                    problems.append("the receiver is cache number %s of self.caches, not self.caches[0]" % tag[6:])
                if attr != name:
                    problems.append("it calls .%s instead of .%s" % (attr, name))
                seen = {}
                for i_, a in enumerate(args):
                    if i_ >= len(cpos):
                        problems.append("too many positional arguments for Client.%s" % name)
                        break
                    if a != Opaque("param:" + cpos[i_]):
                        problems.append("positional argument %d is %s but Client.%s expects `%s` there" % (i_ + 1, "`%s`" % a.tag[6:] if isinstance(a, Opaque) and a.tag.startswith("param:") else a, name, cpos[i_]))
                    else:
                        seen[cpos[i_]] = seen.get(cpos[i_], 0) + 1
                for k, kv in kws:
                    if k.startswith("**") or kv != Opaque("param:" + k) or cf.param(k) is None:
                        problems.append("keyword `%s=%s` does not forward a same-named parameter" % (k, "`%s`" % kv.tag[6:] if isinstance(kv, Opaque) and kv.tag.startswith("param:") else kv))
                    else:
                        seen[k] = seen.get(k, 0) + 1
                for pn in mine:
                    if seen.get(pn, 0) != 1:
                        problems.append("parameter `%s` is forwarded %d times" % (pn, seen.get(pn, 0)))
        problems = list(dict.fromkeys(problems))
        if undecided and not problems:
            r1.undecided("FallbackClient.%s:writer" % name, "FallbackClient.%s: %s" % (name, undecided))
            continue
        r1.expect(not problems, "FallbackClient.%s -> self.caches[0].%s(%s)" % (name, name, ", ".join(p.name for p in f.pos_params())), "FallbackClient.%s:writer" % name, "FallbackClient.%s: %s" % (name, "; ".join(problems)), fn=f, node=f.node)
    r1.floor("mutating methods", n_w, 11)

    r2 = chk.rule("C18.R2", "each read consults self.caches in the configured order, calls the same-named method once per cache with the caller's argument, returns the first hit and consults no cache after it")
    r3 = chk.rule("C18.R3", "each reader's hit test is false on the delegate's miss value and true on a hit")
    n_r = 0
    for name in READERS:
        f = prog.method(fb, name, required=False)
        if f is None:
            r2.fail("FallbackClient.%s:missing" % name, "FallbackClient lacks the read method %s" % name, file=fb.module.rel, line=fb.node.lineno)
            continue
        n_r += 1
        cf, miss, kind = rules_C07.miss_shape(prog, name)
        miss = rules_C07.subst_defaults(miss, cf, f)
        miss_val = _abstract(miss)
        params = {p.name: Opaque("arg:" + p.name) for p in f.pos_params()}
        want_args = tuple(params[p.name] for p in f.pos_params())
        problems, hit_problem = [], None
        scripts = [("hit",), ("miss", "hit"), ("miss", "miss")]
        if kind == "single" and miss_val == Const(None):
            scripts.append(("hit-falsy",))  # a stored b"" / 0 is a hit, not a miss
        for script in scripts:
            dom = ReaderDomain(prog, f, script, miss_val)
            outs = Interp(dom, f.node, prog).run(Env(dict(params)))
            if dom.other_cache_use:
                problems.append("self.caches is traversed through `%s`, not in its configured order" % node_src(dom.other_cache_use[0]))
            if outs.of("exc"):
                problems.append("raises %s with answers %s" % ([e.cls for s_, e, t_ in outs.of("exc")], list(script)))
            for s_, v, t_ in outs.of("ret"):
                calls = s_.get("#calls", ())
                for (who, attr, args, kw) in calls:
                    if attr != name:
                        problems.append("calls .%s on a cache instead of .%s" % (attr, name))
                    if args != want_args or kw:
                        problems.append("passes %s instead of the caller's (%s)" % ([str(a) for a in args], ", ".join(p.name for p in f.pos_params())))
                order = [c[0] for c in calls]
                hits = [i for i, a in enumerate(script) if a.startswith("hit")]
                want_n = hits[0] + 1 if hits else 2
                want_v = {"hit": Opaque("hit-value"), "hit-falsy": Const(b"")}.get(script[hits[0]]) if hits else None
                if order != ["cache#%d" % (i + 1) for i in range(len(order))]:
                    problems.append("consults the caches as %s, not in the configured order" % order)
                if hits:
                    if len(calls) > want_n:
                        problems.append("consults %d caches although cache %d answered%s (answers %s)" % (len(calls), want_n, " with a falsy but present value (b'')" if "hit-falsy" in script else "", list(script)))
                    elif len(calls) < want_n:
                        hit_problem = hit_problem or "with answers %s only %d cache(s) are consulted: the miss value %s of the first cache is taken for a hit" % (list(script), len(calls), rules_C07.show(miss))
                    elif v != want_v:
                        problems.append("returns %s instead of the answering cache's result (answers %s)" % (v, list(script)))
                else:
                    if len(calls) < 2:
                        hit_problem = hit_problem or "when every cache reports a miss (%s) only %d of 2 caches are consulted: the miss value is taken for a hit, the first cache always 'answers' and the fallback caches are never consulted" % (rules_C07.show(miss), len(calls))
            if not outs.of("ret") and not outs.of("exc"):
                problems.append("never returns")
        r2.expect(not problems, "FallbackClient.%s: in-order, one %s call per cache, first hit returned, nothing consulted after it" % (name, name), "FallbackClient.%s:reader" % name, "FallbackClient.%s: %s" % (name, "; ".join(dict.fromkeys(problems))), fn=f, node=f.node)
        r3.expect(hit_problem is None, "FallbackClient.%s: the miss value %s is not taken for a hit" % (name, rules_C07.show(miss)), "FallbackClient.%s:hit-test-vs-miss" % name, "FallbackClient.%s: %s" % (name, hit_problem), fn=f, node=f.node)
    r2.floor("read methods", n_r, 4)
    chk.assume("every cache passed to FallbackClient has the Client interface and Client's miss conventions")


def _init_snapshots(prog):
    """{attribute: k} for every `self.<attribute> = caches[k]` / `self.caches[k]` in FallbackClient.__init__."""
    if prog is None:
        return {}
    memo = prog.__dict__.get("_fb_snapshots")
    if memo is None:
        memo = {}
        init = prog.method("FallbackClient", "__init__", required=False)
        for n in ast.walk(init.node) if init is not None else ():
            if isinstance(n, ast.Assign) and isinstance(n.value, ast.Subscript) and isinstance(n.value.slice, ast.Constant) and isinstance(n.value.slice.value, int) and n.value.slice.value >= 0:
                src = n.value.value
                if (isinstance(src, ast.Name) and src.id == "caches") or is_self_attr(src, "caches"):
                    for t in n.targets:
                        if is_self_attr(t):
                            memo[t.attr] = n.value.slice.value
        prog.__dict__["_fb_snapshots"] = memo
    return memo


def _cache_memory(prog):
    """{attribute: 'FallbackClient.<method> fills'} for instance attributes (other than `caches`) into which a method
    stores a cache object: a name bound by iterating self.caches or by subscripting it."""
    if prog is None:
        return {}
    memo = prog.__dict__.get("_fb_cache_memory")
    if memo is None:
        memo = {}
        fb = prog.cls("FallbackClient")
        for f in fb.methods.values():
            cache_names = set()
            for n in ast.walk(f.node):
                if isinstance(n, (ast.For, ast.comprehension)) and isinstance(n.target, ast.Name) and any(is_self_attr(x, "caches") for x in ast.walk(n.iter)):
                    cache_names.add(n.target.id)
                if isinstance(n, ast.Assign) and isinstance(n.value, ast.Subscript) and is_self_attr(n.value.value, "caches"):
                    cache_names |= {t.id for t in n.targets if isinstance(t, ast.Name)}
            def is_cache(v):
                return (isinstance(v, ast.Name) and v.id in cache_names) or (isinstance(v, ast.Subscript) and is_self_attr(v.value, "caches"))
            for n in ast.walk(f.node):
                tgt = None
                if isinstance(n, ast.Assign) and is_cache(n.value):
                    for t in n.targets:
                        if isinstance(t, ast.Subscript) and is_self_attr(t.value):
                            tgt = t.value.attr
                        elif is_self_attr(t) and f.name != "__init__":
                            tgt = t.attr
                elif isinstance(n, ast.Call) and isinstance(n.func, ast.Attribute) and is_self_attr(n.func.value) and n.func.attr in ("append", "add", "setdefault", "insert", "__setitem__") and any(is_cache(a) for a in n.args):
                    tgt = n.func.value.attr
                if tgt is not None and tgt != "caches":
                    memo[tgt] = "FallbackClient.%s fills" % f.name
        prog.__dict__["_fb_cache_memory"] = memo
    return memo


def _abstract(t):
    """Abstract value of a miss term."""
    from .paths import TupleV

    if t[0] == "const":
        return Const(eval(t[1], {}, {}))
    if t[0] in ("emptydict", "emptylist"):
        return TupleV(())
    if t[0] == "tuple":
        return TupleV(tuple(_abstract(x) for x in t[1:]))
    return TOP
