"""C05 - return values report the server's actual outcome (partial: tables, verbs, reply -> return decisions)."""
import ast
from collections import namedtuple

from .model import AnalysisError, NotConst, fold, node_src, is_self_attr, call_name
from .paths import Interp, Domain, Env, TOP, NONE, Const, TupleV, Exc, ORD, fmt_trace, Opaque, Ctx, FuncRef
from .report import walk_no_nested
from . import wire, spec, exchange
from . import report as report_mod
from .colls import ExactCollections, GenV, DictV, deref, new_object

LEVEL = "other"
LEVEL_TEXT = (
    "The composition 'verb sent / reply accepted / value returned' is decided statically: the reply tables are "
    "exhaustive and equal to the protocol/contract tables; each public method sends the verb it is documented to send "
    "and asks for cas tokens exactly in the gets family; every public method is interpreted end to end (exchange functions and "
    "helpers inlined, exact key collections, scripted reply lines: pmcsa/colls.py, script_eval) on every reply of its "
    "verb's alphabet and must return the documented value - per key for multi-key calls of 0, 1 and 2 keys -, raise the "
    "documented exception for error lines and foreign lines, and return the documented constant with noreply; defaults "
    "resolve to default_noreply. An obligation the abstraction cannot evaluate exactly is reported as undecided (exit 2). "
    "Anything over histories (cas tokens accepted later, expiry, equivalence with a map model) is not decided."
)
TRUSTED = ["CPython ast", "pmcsa/paths.py", "pmcsa/colls.py", "pmcsa/wire.py", "protocol/contract tables and reply scripts in pmcsa/spec.py"]


class ReplyDomain(Domain):
    """Code after the exchange: results[0] is a constant reply token; pure builtins on constants are folded."""

    async_enabled = False
    subscript_may_raise = False
    unpack_may_raise = False

    def __init__(self, prog, fn, reply, noreply, exch_names):
        super().__init__(prog, fn)
        self.reply = reply
        self.noreply = noreply
        self.exch = exch_names
        # request/response functions whose noreply result is an empty list (they return `[]`)
        self.list_results = {n for n in exch_names if any(isinstance(r, ast.Return) and isinstance(r.value, ast.List) and not r.value.elts for r in ast.walk(prog.method("Client", n).node))}

    def name_load(self, name, state, node=None):
        if name == "noreply" and not state.has("noreply"):
            return Const(self.noreply)
        return state.get(name, TOP)

    def attr_load(self, objval, node, state):
        if is_self_attr(node, "default_noreply"):
            d = getattr(self, "default_noreply", None)
            return Const(self.noreply if d is None else d)
        if isinstance(objval, Const):
            return ("cmeth", objval, node.attr)
        return TOP

    def call(self, node, fval, args, kwargs, state):
        name = call_name(node)
        if name.startswith("self.") and name[5:] in self.exch:
            if self.noreply:
                return [("ok", TupleV(()), state)] if name[5:] in self.list_results else [("ok", Opaque("noreply-result"), state)]
            return [("ok", TupleV((Const(self.reply),)), state)]
        if name.startswith("self.") and name.count(".") == 1:
            m = self.prog.cls("Client").methods.get(name[5:])
            if m is not None and name[5:].startswith("_") and name[5:] not in ("_connect", "_check_integer", "_check_cas", "check_key"):
                res = self.inline(node, m, args, kwargs, state)
                if res is not None:
                    return res
        if isinstance(fval, tuple) and fval and fval[0] == "cmeth" and fval[2] in ("partition", "startswith", "split", "decode", "isdigit", "strip", "find") and all(isinstance(a, Const) for a in args):
            try:
                v = getattr(fval[1].v, fval[2])(*[a.v for a in args])
            except Exception as e:
                return [("exc", Exc(ORD, type(e).__name__, node.lineno), state)]
            if isinstance(v, tuple):
                return [("ok", TupleV(tuple(Const(x) for x in v)), state)]
            return [("ok", Const(v), state)]
        if isinstance(fval, tuple) and fval and fval[0] == "cmeth" and fval[2] == "encode" and isinstance(fval[1].v, str) and fval[1].v.isascii() and len(args) <= 1 and not kwargs:
            # text of ASCII characters only is the same bytes under every codec a client can be configured with
            # (ascii, utf-8, latin-1, ...; an encoding that is not ASCII-compatible could not frame a command line)
            return [("ok", Const(fval[1].v.encode("ascii")), state)]
        if name == "isinstance" and len(args) == 2 and isinstance(args[0], Const) and len(node.args) == 2:
            names = [x.id for x in (node.args[1].elts if isinstance(node.args[1], ast.Tuple) else [node.args[1]]) if isinstance(x, ast.Name)]
            types = {"str": str, "bytes": bytes, "int": int, "bool": bool, "float": float, "bytearray": bytearray, "list": list, "tuple": tuple, "dict": dict}
            if names and len(names) == (len(node.args[1].elts) if isinstance(node.args[1], ast.Tuple) else 1) and all(n_ in types for n_ in names) and not isinstance(args[0].v, (tuple, frozenset)):
                return [("ok", Const(isinstance(args[0].v, tuple(types[n_] for n_ in names))), state)]
        if name == "int" and len(args) == 1 and isinstance(args[0], Const):
            try:
                return [("ok", Const(int(args[0].v)), state)]
            except Exception:
                return [("exc", Exc(ORD, "ValueError", node.lineno), state)]
        if name in ("self.check_key", "self._check_integer", "self._check_cas"):
            return [("ok", Const(b"x"), state)]
        return [("ok", TOP, state)]

    def subscript_load(self, objval, idxval, node, state):
        if isinstance(objval, TupleV) and isinstance(idxval, Const) and isinstance(idxval.v, int) and -len(objval.items) <= idxval.v < len(objval.items):
            return objval.items[idxval.v], False
        if objval == Opaque("noreply-result"):
            return Opaque("noreply-item"), False
        return TOP, False

    def binop(self, node, l, r, state):
        if isinstance(l, Const) and isinstance(r, Const) and isinstance(l.v, bytes) and isinstance(r.v, bytes) and isinstance(node.op, ast.Add):
            return Const(l.v + r.v)
        return super().binop(node, l, r, state)

    def fstring(self, node, parts, state):
        return TOP


class ReaderV(namedtuple("ReaderV", "name kw")):
    """A reader function of base.py as a value (possibly with arguments bound by functools.partial)."""


class Val(namedtuple("Val", "tag")):
    """A caller-supplied or deserialised value: nothing is known about its truthiness or whether it is None."""


class StoreDomain(ExactCollections, ReplyDomain):
    """The public storage methods evaluated *through* the store exchange: `values` is an exact dict of symbolic keys,
    lists and dicts are exact (pmcsa/colls.py), each reply-line read returns the next scripted line.  What comes out
    is the value the caller gets for (which keys, noreply, which reply per key)."""

    max_inline_depth = 4

    def __init__(self, prog, fn, replies, noreply, exch_names, store_names, readers):
        ReplyDomain.__init__(self, prog, fn, b"", noreply, [n for n in exch_names if n not in store_names])
        self.replies = tuple(replies)
        self.readers = set(readers)
        self.base = prog.module("pymemcache/client/base.py")

    global_keys = ("#nread", "#overread", "#nsend", "#imprecise", "#nkeychk", "#reads")

    def mark_imprecise(self, state, node):
        return state.set("#imprecise", 1)

    def never_none(self, v):
        return isinstance(v, ReaderV) or super().never_none(v)

    def truth(self, v, state=None):
        if isinstance(v, ReaderV):
            return True  # a function object
        return super().truth(v, state)

    def name_load(self, name, state, node=None):
        if state.has(name):
            return state.get(name)
        if name in self.readers:
            return ReaderV(name, ())
        if name in self.base.functions and not state.has(name):
            return FuncRef(name)  # a module-level helper of base.py, as a value (it may be chosen by a conditional)
        if name in self.base.assigns and name.isupper():
            try:
                return _lift(self.base.const(name))
            except NotConst:
                # not a literal constant (e.g. a table that mentions exception classes): evaluate the display
                expr = self.base.assigns[name]
                if isinstance(expr, (ast.Tuple, ast.List, ast.Dict)) and all(isinstance(n, (ast.Tuple, ast.List, ast.Dict, ast.Constant, ast.Name, ast.Load, ast.expr_context)) for n in ast.walk(expr)):
                    oks, excs = Interp(self, self.fn.node, self.prog).ev(expr, Env(), Ctx(self.fn.node))
                    if len(oks) == 1 and not excs and _hashable_val(oks[0][0]):
                        return oks[0][0]
                self.lost_constants = getattr(self, "lost_constants", set()) | {name}
                return TOP
        return ReplyDomain.name_load(self, name, state, node)

    def attr_load(self, objval, node, state):
        b = self.coll_attr(objval, node)
        if b is not None:
            return b
        if is_self_attr(node, "sock"):
            if getattr(self, "fault", None) == "connect":
                return state.get("self.sock", NONE)  # not connected, and connecting fails (see call)
            return Opaque("sock")  # connected: connection handling is C06's subject
        if is_self_attr(node, "ignore_exc") and getattr(self, "ignore_exc", None) is not None:
            return Const(self.ignore_exc)
        return ReplyDomain.attr_load(self, objval, node, state)

    def subscript_load(self, objval, idxval, node, state):
        if isinstance(objval, Const) and isinstance(objval.v, bytes) and isinstance(node.slice, ast.Slice):
            from .colls import SliceV

            if isinstance(idxval, SliceV):
                b = [None if x == NONE else (x.v if isinstance(x, Const) else "?") for x in idxval]
                if all(x is None or (isinstance(x, int) and not isinstance(x, bool)) for x in b) and b[2] != 0:
                    return Const(objval.v[slice(*b)]), False
            return TOP, False
        return ReplyDomain.subscript_load(self, objval, idxval, node, state)

    def consumed_call(self, node, fval, args, kwargs, state):
        return self.call(node, fval, args, kwargs, state)

    def call(self, node, fval, args, kwargs, state):
        r = self.coll_call(node, fval, args, kwargs, state)
        if r is not None:
            return r
        name = call_name(node)
        if isinstance(fval, FuncRef) and fval.name in self.base.functions and fval.name not in self.readers:
            res = self.inline(node, self.base.functions[fval.name], args, kwargs, state)
            if res is not None:
                return res
        if isinstance(fval, ReaderV) or (name in ("partial", "functools.partial") and args and isinstance(args[0], ReaderV)):
            if name in ("partial", "functools.partial"):
                return [("ok", ReaderV(args[0].name, args[0].kw + tuple(sorted(kwargs.items(), key=lambda kv: kv[0])) + tuple(("#pos%d" % j, a) for j, a in enumerate(args[1:]))), state)]
            # which reader is asked for this item, and with which terminator / size (see reads_of)
            bound = dict(fval.kw)
            bound.update(kwargs)
            state = state.set("#reads", state.get("#reads", ()) + ((fval.name, tuple(args[2:]), tuple(sorted(((k, v) for k, v in bound.items() if _hashable_val(v)), key=lambda kv: kv[0]))),))
            i = state.get("#nread", 0)
            if i >= len(self.replies):
                # the server sends nothing further: the read blocks / times out
                return [("exc", Exc(ORD, "socket.timeout", node.lineno), state.set("#overread", 1))]
            if self.replies[i] == spec.CLOSE:
                return [("exc", Exc(ORD, "MemcacheUnexpectedCloseError", node.lineno), state.set("#nread", i + 1))]
            if len(args) >= 3 and isinstance(args[2], Const) and isinstance(args[2].v, int) and not isinstance(args[2].v, bool) and args[2].v != len(self.replies[i]):
                # a data block read with another size than the VALUE line announced: the stream is out of step
                return [("exc", Exc(ORD, "WrongBlockSize(%d for a %d byte block)" % (args[2].v, len(self.replies[i])), node.lineno), state)]
            return [("ok", TupleV((TOP, Const(self.replies[i]))), state.set("#nread", i + 1))]
        if isinstance(node.func, ast.Attribute) and node.func.attr == "sendall":
            return [("ok", NONE, state.set("#nsend", min(3, state.get("#nsend", 0) + 1)))]
        if name in ("self.close", "self.disconnect_all"):
            return [("ok", NONE, state)]
        if name == "self.check_key" and isinstance(getattr(self, "fault", None), str) and self.fault.startswith("illegal-key:"):
            n = state.get("#nkeychk", 0) + 1
            state = state.set("#nkeychk", n)
            if n == int(self.fault.split(":")[1]):
                return [("exc", Exc(ORD, "MemcacheIllegalInputError", node.lineno), state)]
        if name == "self.check_key" and args and isinstance(args[0], Opaque) and args[0].tag.startswith("K"):
            # the wire form of the symbolic key K<i> is the token k<i>
            # (K1B is a second caller key with the same wire form as K1, like "k" and b"k")
            return [("ok", Const(args[0].tag.lower().rstrip("b").encode()), state)]
        if name == "self._connect" and getattr(self, "fault", None) == "connect":
            return [("exc", Exc(ORD, "ConnectionRefusedError", node.lineno), state)]
        if name == "self.serde.deserialize" and getattr(self, "fault", None) == "deserialize":
            return [("exc", Exc(ORD, "UnpicklingError", node.lineno), state)]
        if isinstance(node.func, ast.Attribute) and node.func.attr == "sendall" and getattr(self, "fault", None) == "send":
            return [("exc", Exc(ORD, "BrokenPipeError", node.lineno), state)]
        if name in ("self.serde.deserialize", "self.serde.serialize"):
            return [("ok", Val("%s(%s)" % (name[11:], ", ".join(map(_show, args)))) if name.endswith("deserialize") else TOP, state)]
        return ReplyDomain.call(self, node, fval, args, kwargs, state)


def _hashable_val(v):
    try:
        hash(v)
        return True
    except TypeError:
        return False


def _lift(v):
    if isinstance(v, dict):
        return DictV(tuple((_lift(k), _lift(x)) for k, x in v.items()))
    if isinstance(v, (set, frozenset)):
        return Const(frozenset(v))
    if isinstance(v, list):
        return Const(tuple(v))
    return Const(v)


def _show(v):
    if isinstance(v, Const):
        return repr(v.v)
    if isinstance(v, (Opaque, Val)):
        return v.tag
    if isinstance(v, TupleV):
        return "(%s)" % ", ".join(map(_show, v.items))
    if isinstance(v, DictV):
        return "{%s}" % ", ".join("%s: %s" % (_show(k), _show(x)) for k, x in v.items)
    return str(v)


def script_eval(prog, mname, replies, nkeys=2, noreply=False, ignore_exc=False, full=False, oneshot=False, fault=None, alias=False, noreply_arg="unset", default_noreply=None, keyseq=None, bind=None):
    """Evaluate any public wire method of Client end to end against a scripted sequence of reply lines / data blocks.
    -> (returned values, exception classes)"""
    f = prog.method("Client", mname)
    exn = wire.exchange_names(prog)
    direct, readers = exchange.recv_reaching_functions(prog)
    dom = StoreDomain(prog, f, replies, noreply, exn, exn, readers)
    dom.ignore_exc = ignore_exc
    dom.default_noreply = default_noreply  # None: self.default_noreply is whatever `noreply` says
    dom.fault = fault  # None | 'connect' | 'send' | 'deserialize' | 'illegal-key:<n>' (the n-th key validated is illegal)
    ks = tuple(Opaque("K%d" % (i + 1)) for i in range(nkeys))
    if alias:
        ks = (Opaque("K1"), Opaque("K1B"))  # two distinct caller keys that are the same key on the wire
    if keyseq is not None:
        ks = tuple(Opaque(t) for t in keyseq)  # e.g. a key the caller asks for twice
    env = {}
    for p in f.params:
        if p.name in ("self", "noreply"):
            continue
        if p.name == "key":
            env[p.name] = ks[0]
        elif p.name == "keys":
            # a list, or (oneshot) an iterator that can be traversed only once, e.g. a generator
            env[p.name] = GenV(("caller", p.name), ks) if oneshot else TupleV(ks)
        elif p.name == "values":
            new_object(env, p.name, "dict", DictV(tuple((k, TOP) for k in ks)))
        elif p.kind == "vararg":
            env[p.name] = TupleV(())
        elif p.kind == "kwarg":
            new_object(env, p.name, "dict", DictV(()))
        else:
            env[p.name] = Val("arg:" + p.name)
    if noreply_arg != "unset" and f.param("noreply") is not None:
        env["noreply"] = Const(noreply_arg)  # the value the caller passes for `noreply` (None = not given)
    for k_, v_ in (bind or {}).items():
        if v_ is None:
            # the argument is not given: its default
            d_ = f.param(k_).default if f.param(k_) is not None else None
            try:
                env[k_] = Const(fold(d_)) if d_ is not None else TOP
            except NotConst:
                env[k_] = TOP
        else:
            env[k_] = Const(v_)
    outs = Interp(dom, f.node, prog).run(Env(env))
    if getattr(dom, "lost_constants", None):
        # a module-level table the analysis could not compute was consulted: nothing this evaluation says is exact
        from .paths import Outs

        o2 = Outs()
        for (k_, s_, v_), t_ in outs.d.items():
            o2.add(k_, s_.set("#imprecise", 1), v_, t_)
        outs = o2
    if dom.thresholds:
        # a size of the scenario (zero to two keys) was compared with / divided by a constant far above it: what the
        # method does beyond that size is not explored by any of these scripts (see size_thresholds)
        prog.__dict__.setdefault("_size_thresholds", {}).setdefault(mname, set()).update(dom.thresholds)
    if full:
        return outs
    return [deref(v, s_) for s_, v, t in outs.of("ret")], [e.cls for s_, e, t in outs.of("exc")]


def _flat_frags(frags):
    out = []
    for f in frags:
        out.append(f)
        if f[0] == "rep":
            for x in f[1]:
                if hasattr(x, "frags"):
                    out += _flat_frags(x.frags)
    return out


def size_thresholds(prog, rule, prefix="Client"):
    """To be called after a rule's script_eval rows: a method that compares the size of its batch with a constant far
    above the scenarios' zero to two keys (a chunk size, a fast-path threshold) has behaviour none of the rows explores;
    the rule is then undecided for that method - by name, with the constant - instead of silently satisfied."""
    for mname, ths in sorted(prog.__dict__.get("_size_thresholds", {}).items()):
        rule.undecided("%s.%s:size-threshold" % (prefix, mname), "%s.%s compares or divides the size of its batch with %s: the rows explore batches of 0, 1 and 2 keys only; what happens at and beyond that size is not decided" % (prefix, mname, sorted(ths)))


def has_top(v):
    if v is TOP:
        return True
    if isinstance(v, TupleV):
        return any(has_top(x) for x in v.items)
    if isinstance(v, DictV):
        return any(has_top(k) or has_top(x) for k, x in v.items)
    return False


def judge(outs, kind, pred):
    """kind 'ret': every outcome is a return whose value satisfies pred; kind 'raise': every outcome raises class pred
    (None = any class); kind 'noret': no outcome is a return.
    -> ('ok' | 'fail' | 'undecided', description of the offending outcomes, witness trace)
    An offending outcome that the abstraction did not compute exactly (a TOP inside the value, a loop over an unknown
    iterable on the path, a lookup it cannot resolve) is *undecided*, never a violation."""
    rets, excs = outs.of("ret"), outs.of("exc")
    definite, vague, good = [], [], 0
    for s, v, t in rets:
        v = deref(v, s)  # list / dict objects by content
        if kind == "ret" and pred(v):
            good += 1
            continue
        (vague if s.get("#imprecise", 0) or has_top(v) else definite).append(("returns %s" % _show(v), t))
    for s, e, t in excs:
        if kind == "noret" or (kind == "raise" and (pred is None or e.cls == pred)):
            good += 1
            continue
        (vague if s.get("#imprecise", 0) or e.cls in (None, "LookupError") else definite).append(("raises %s" % e.cls, t))
    if not definite and not vague and not good and kind != "noret":
        definite.append(("has no outcome at all", ()))
    bad = definite or vague
    status = "fail" if definite else ("undecided" if vague else "ok")
    return status, " / ".join(sorted({d for d, t in bad})), (fmt_trace(bad[0][1]) if bad and bad[0][1] else None)


def settle(rule, status, what, construct, msg, fn, witness=None):
    if status == "ok":
        rule.ok(what)
    elif status == "fail":
        rule.fail(construct, msg, fn=fn, node=fn.node, witness=witness)
    else:
        rule.undecided(construct, "%s -- the analysis lost the value on this path (%s)" % (what, msg))


def const_is(want):
    return lambda v: isinstance(v, Const) and v.v == want and type(v.v) is type(want)


def storage_rows(prog, r3, keying_only=False, tier="quick"):
    """Decision rows of the storage family (also C04.R3): evaluated through the store exchange on exact key
    collections, the reply line of each command decides the value reported under *that* command's key."""
    import itertools

    n_rows = 0
    for mname in spec.STORE_VERBS + ("cas",):
        f = prog.method("Client", mname)
        alphabet = spec.STORE_REPLIES[mname]
        for reply in sorted(set(spec.STORE_VALUES) | {b"BOGUS"}):
            if keying_only and reply not in alphabet:
                continue
            n_rows += 1
            outs = script_eval(prog, mname, (reply,), nkeys=1, full=True)
            if reply in alphabet:
                want = spec.STORE_VALUES[reply]
                st, got, w = judge(outs, "ret", const_is(want))
                settle(r3, st, "Client.%s: reply %r -> %r" % (mname, reply, want), "Client.%s:reply:%s" % (mname, reply.decode()), "Client.%s %s for the server reply %r; the documented result is %r" % (mname, got, reply, want), f, w)
            else:
                st, got, w = judge(outs, "raise", "MemcacheUnknownError")
                settle(r3, st, "Client.%s: reply %r (not a reply to `%s`) -> MemcacheUnknownError" % (mname, reply, mname), "Client.%s:reply:%s" % (mname, reply.decode()), "Client.%s %s for the line %r, which is not a reply to `%s`; it must raise MemcacheUnknownError" % (mname, got, reply, mname), f, w)
        n_rows += 1
        st, got, w = judge(script_eval(prog, mname, (), nkeys=1, full=True), "noret", None)
        settle(r3, st, "Client.%s: no reply -> no result" % mname, "Client.%s:reply:<none>" % mname, "Client.%s %s although no reply line was received" % (mname, got), f, w)
    f = prog.method("Client", "set_many")
    for n in ((0, 1, 2, 3) if tier == "thorough" else (0, 1, 2)):
        ks = tuple(Opaque("K%d" % (i + 1)) for i in range(n))
        for replies in itertools.product((b"STORED", b"NOT_STORED"), repeat=n):
            n_rows += 1
            want = TupleV(tuple(k for k, r in zip(ks, replies) if r == b"NOT_STORED"))
            st, got, w = judge(script_eval(prog, "set_many", replies, nkeys=n, full=True), "ret", lambda v: v == want)
            settle(r3, st, "Client.set_many(%d keys): replies %s -> failed keys %s" % (n, [r.decode() for r in replies], [k.tag for k in want.items]), "Client.set_many:replies:%s" % ",".join(r.decode() for r in replies), "Client.set_many with keys %s and replies %s %s; the documented result is the list of the keys that were not stored, %s" % ([k.tag for k in ks], [r.decode() for r in replies], got, [k.tag for k in want.items]), f, w)
    # two caller keys that are one key on the wire ("k" and b"k"): two commands, two replies, two results
    for replies in itertools.product((b"STORED", b"NOT_STORED"), repeat=2):
        n_rows += 1
        ks = (Opaque("K1"), Opaque("K1B"))
        want = TupleV(tuple(k for k, r in zip(ks, replies) if r == b"NOT_STORED"))
        st, got, w = judge(script_eval(prog, "set_many", replies, alias=True, full=True), "ret", lambda v: v == want)
        settle(r3, st, "Client.set_many(two keys with the same wire form): replies %s -> failed keys %s" % ([r.decode() for r in replies], [k.tag for k in want.items]), "Client.set_many:same-wire-key:%s" % ",".join(r.decode() for r in replies), "Client.set_many with two caller keys that encode to the same wire key (e.g. 'k' and b'k') and replies %s %s; two commands are sent, so the documented result is %s" % ([r.decode() for r in replies], got, [k.tag for k in want.items]), f, w)
    n_rows += 1
    st, got, w = judge(script_eval(prog, "set_many", (b"STORED",), nkeys=2, full=True), "noret", None)
    settle(r3, st, "Client.set_many(2 keys): one reply only -> no result", "Client.set_many:replies:short", "Client.set_many %s after one reply line for two commands" % got, f, w)
    return n_rows


def retrieval_rows(prog, r3):
    """Decision rows of the retrieval family (also C04.R3), end to end: which key, which data block, which flags and
    which cas token reach the caller."""
    def deser(k, data, flags):
        return Val("deserialize(%s, %r, %d)" % (k, data, flags))

    D, CD = Val("arg:default"), Val("arg:cas_default")
    fam = {
        "get": [((b"END",), D), ((b"VALUE k1 5 3", b"abc", b"END"), deser("K1", b"abc", 5))],
        "gat": [((b"END",), D), ((b"VALUE k1 5 3", b"abc", b"END"), deser("K1", b"abc", 5))],
        "gets": [((b"END",), TupleV((D, CD))), ((b"VALUE k1 5 3 77", b"abc", b"END"), TupleV((deser("K1", b"abc", 5), Const(b"77"))))],
        "gats": [((b"END",), TupleV((D, CD))), ((b"VALUE k1 5 3 77", b"abc", b"END"), TupleV((deser("K1", b"abc", 5), Const(b"77"))))],
        "get_many": [((b"END",), {}), ((b"VALUE k2 5 3", b"abc", b"END"), {"K2": deser("K2", b"abc", 5)}), ((b"VALUE k2 5 3", b"abc", b"VALUE k1 1 2", b"de", b"END"), {"K2": deser("K2", b"abc", 5), "K1": deser("K1", b"de", 1)})],
        "gets_many": [((b"END",), {}), ((b"VALUE k2 5 3 9", b"abc", b"END"), {"K2": TupleV((deser("K2", b"abc", 5), Const(b"9")))}), ((b"VALUE k2 5 3 9", b"abc", b"VALUE k1 1 2 8", b"de", b"END"), {"K2": TupleV((deser("K2", b"abc", 5), Const(b"9"))), "K1": TupleV((deser("K1", b"de", 1), Const(b"8")))})],
    }
    n_rows = 0
    for mname, rows in sorted(fam.items()):
        f = prog.method("Client", mname)
        for replies, want in rows:
            n_rows += 1
            if isinstance(want, dict):
                pred = lambda v, want=want: isinstance(v, DictV) and len(v.items) == len(want) and {k.tag: x for k, x in v.items if isinstance(k, Opaque)} == want
                wtxt = "{%s}" % ", ".join("%s: %s" % (k, _show(x)) for k, x in want.items())
            else:
                pred = lambda v, want=want: v == want
                wtxt = _show(want)
            st, got, w = judge(script_eval(prog, mname, replies, full=True), "ret", pred)
            key = "+".join(r.split(b" ")[0].decode() for r in replies if r.split(b" ")[0] in (b"VALUE", b"END"))
            if f.param("keys") is not None:
                n_rows += 1
                st1, got1, w1 = judge(script_eval(prog, mname, replies, full=True, oneshot=True), "ret", pred)
                settle(r3, st1, "Client.%s(keys given as a one-shot iterator): %s -> %s" % (mname, [r.decode() for r in replies], wtxt), "Client.%s:one-shot-keys:%s" % (mname, key), "Client.%s, called with keys as an iterator that can be traversed only once (a generator), %s for the reply %s; with a list it is %s: the keys are traversed more than once without being materialised first" % (mname, got1, [r.decode() for r in replies], wtxt), f, w1)
            settle(r3, st, "Client.%s: %s -> %s" % (mname, [r.decode() for r in replies], wtxt), "Client.%s:reply:%s" % (mname, key), "Client.%s %s for the reply %s; the documented result is %s (key as passed by the caller, data block of that VALUE line deserialised with its flags%s)" % (mname, got, [r.decode() for r in replies], wtxt, ", its cas token" if "gets" in mname or "gats" in mname else ""), f, w)
        if f.param("keys") is not None:
            # a key asked for twice is one item: it comes back under that key, and the keys after it keep their own values
            n_rows += 1
            cas = "gets" in mname
            replies = (b"VALUE k1 1 2 8" if cas else b"VALUE k1 1 2", b"de", b"VALUE k2 5 3 9" if cas else b"VALUE k2 5 3", b"abc", b"END")
            want = {"K1": deser("K1", b"de", 1), "K2": deser("K2", b"abc", 5)}
            if cas:
                want = {"K1": TupleV((want["K1"], Const(b"8"))), "K2": TupleV((want["K2"], Const(b"9")))}
            pred = lambda v, want=want: isinstance(v, DictV) and len(v.items) == len(want) and {k.tag: x for k, x in v.items if isinstance(k, Opaque)} == want
            st, got, w = judge(script_eval(prog, mname, replies, full=True, keyseq=("K1", "K1", "K2")), "ret", pred)
            settle(r3, st, "Client.%s([K1, K1, K2]): each key with its own value" % mname, "Client.%s:repeated-key" % mname, "Client.%s([k1, k1, k2]) %s for the reply %s; every requested key must come back with the value of its own VALUE line (a repeated key shifts or overwrites the pairing of wire keys and caller keys)" % (mname, got, [r.decode() for r in replies]), f, w)
        # a reply cut short (no END) never yields a result; a line that is neither VALUE nor END is an error
        n_rows += 2
        cut = rows[-1][0][:-1]
        st, got, w = judge(script_eval(prog, mname, cut, full=True), "noret", None)
        settle(r3, st, "Client.%s: %s -> no result" % (mname, [r.decode() for r in cut]), "Client.%s:reply:truncated" % mname, "Client.%s %s for the reply %s, which has no END line: the reply is incomplete" % (mname, got, [r.decode() for r in cut]), f, w)
        st, got, w = judge(script_eval(prog, mname, (b"BOGUS",), full=True), "raise", "MemcacheUnknownError")
        settle(r3, st, "Client.%s: ['BOGUS'] -> MemcacheUnknownError" % mname, "Client.%s:reply:BOGUS" % mname, "Client.%s %s for the line b'BOGUS', which is not a reply line of the protocol; it must raise MemcacheUnknownError" % (mname, got), f, w)
    return n_rows


def run(chk):
    prog = chk.prog
    base = prog.module("pymemcache/client/base.py")
    # ------------------------------------------------------------------ R1 tables
    r1 = chk.rule("C05.R1", "reply tables: accepted tokens per store verb equal the protocol table, every accepted token has a documented return value")
    try:
        valid = base.const("VALID_STORE_RESULTS")
        values = base.const("STORE_RESULTS_VALUE")
    except NotConst as e:
        raise AnalysisError("C05.R1: reply tables are no longer literal dicts (%s)" % e)
    for verb, toks in sorted(spec.STORE_REPLIES.items()):
        got = valid.get(verb.encode())
        r1.expect(got is not None and set(got) == set(toks), "VALID_STORE_RESULTS[%s] == %s" % (verb, sorted(toks)), "VALID_STORE_RESULTS:%s" % verb, "the replies accepted for `%s` are %s; the protocol defines %s: a legitimate server reply is reported as an unknown error, or an impossible one is accepted" % (verb, sorted(got) if got else None, sorted(toks)), file=base.rel, line=base.assigns["VALID_STORE_RESULTS"].lineno)
    for extra in sorted(set(valid) - {v.encode() for v in spec.STORE_REPLIES}):
        r1.fail("VALID_STORE_RESULTS:extra:%s" % extra.decode(), "VALID_STORE_RESULTS has an entry for %r, which is not a store verb" % extra, file=base.rel, line=base.assigns["VALID_STORE_RESULTS"].lineno)
    for tok, want in sorted(spec.STORE_VALUES.items()):
        ok = tok in values and values[tok] is want
        r1.expect(ok, "STORE_RESULTS_VALUE[%s] is %r" % (tok.decode(), want), "STORE_RESULTS_VALUE:%s" % tok.decode(), "the reply %s is reported as %r, the documented value is %r" % (tok.decode(), values.get(tok, "<missing>"), want), file=base.rel, line=base.assigns["STORE_RESULTS_VALUE"].lineno)
    for verb, toks in valid.items():
        for t in toks:
            r1.expect(t in values, "%s has a return value" % t.decode(), "STORE_RESULTS_VALUE:missing:%s" % t.decode(), "the accepted reply %s has no entry in STORE_RESULTS_VALUE (KeyError instead of a result)" % t.decode(), file=base.rel, line=base.assigns["STORE_RESULTS_VALUE"].lineno)
    store = [f for f in exchange.exchange_functions(prog) if f.param("values") is not None]
    if not store:
        raise AnalysisError("C05: no request/response function with a `values` parameter (the store exchange) was found")

    # ------------------------------------------------------------------ R2 method <-> verb, expect_cas, cmd_name
    r2 = chk.rule("C05.R2", "each public method sends the verb it is documented to send; cas tokens are requested exactly in the gets family; errors are reported under that verb")
    methods = wire.wire_methods(prog)
    for m in methods:
        if m.name in spec.EXEMPT_FROM_GRAMMAR:
            continue
        want = spec.METHOD_VERB.get(m.name, m.name)
        dom = wire.evaluate(prog, m)
        verbs = set()
        names = set()
        ecas = set()
        for ev in dom.events:
            for cmd in wire.commands_of(ev["wire"]):
                if cmd and cmd[0][0] == "lit":
                    verbs.add(cmd[0][1].decode("latin-1").split("\r")[0].split(" ")[0])
                elif cmd and wire.lost(_flat_frags(cmd)):
                    verbs.add("<lost>")
                elif cmd:
                    verbs.add("<non-literal>")
            b = ev["bound"]
            for k in ("name", "cmd_name"):
                if k in b:
                    names.add(b[k].v.decode() if isinstance(b[k], Const) and isinstance(b[k].v, bytes) else wire.describe(b[k]))
            if "expect_cas" in b:
                ecas.add(b["expect_cas"].v if isinstance(b["expect_cas"], Const) else wire.describe(b["expect_cas"]))
        if "<lost>" in verbs:
            r2.undecided("Client.%s:verb" % m.name, "Client.%s: the command is built in a way the wire domain cannot follow; its verb is not known" % m.name)
            verbs = {want}
        r2.expect(verbs == {want}, "Client.%s sends `%s`" % (m.name, want), "Client.%s:verb" % m.name, "Client.%s sends the verb(s) %s; it is documented to send `%s`" % (m.name, sorted(verbs), want), fn=m, node=m.node)
        r2.expect(names == {want}, "Client.%s reports errors as `%s`" % (m.name, want), "Client.%s:cmd-name" % m.name, "Client.%s passes %s as the command name for reply checking / error reporting (expected `%s`): replies are validated against another verb's table" % (m.name, sorted(names), want), fn=m, node=m.node)
        if m.name in spec.EXPECT_CAS:
            r2.expect(ecas == {spec.EXPECT_CAS[m.name]}, "Client.%s expect_cas=%s" % (m.name, spec.EXPECT_CAS[m.name]), "Client.%s:expect_cas" % m.name, "Client.%s parses VALUE lines with expect_cas=%s (must be %s): the cas token is dropped or a 4-field line is unpacked into 5" % (m.name, sorted(map(str, ecas)), spec.EXPECT_CAS[m.name]), fn=m, node=m.node)
    r2.floor("methods checked", len(methods) - 1, 24)
    # readers and writers address the same namespace (same rule as C04.R4)
    from .rules_C04 import prefix_symmetry

    prefix_symmetry(prog, r2)
    # a command the server cannot parse reports nothing: every command sent follows the protocol grammar (C02.R1)
    from . import rules_C02

    report_mod.include_rules(chk, r2, rules_C02, ("C02.R1",), "the command that is sent is one the server understands as the documented verb with its arguments in the protocol's order")

    # ------------------------------------------------------------------ R3 reply -> return decision tables
    r3 = chk.rule("C05.R3", "reply -> return value decision tables: delete, touch, flush_all, incr, decr, version over each verb's reply alphabet; the storage family and the retrieval family evaluated end to end through their exchanges")
    exn = wire.exchange_names(prog)
    n_rows = 0
    for mname, table in sorted(spec.REPLY_TABLE.items()):
        f = prog.method("Client", mname)
        for reply, want in sorted(table.items()):
            n_rows += 1
            outs = script_eval(prog, mname, (reply,), nkeys=1, full=True)
            if isinstance(want, str) and want.startswith("RAISE:"):
                st, got, w = judge(outs, "raise", want[6:])
            else:
                st, got, w = judge(outs, "ret", const_is(want))
            settle(r3, st, "Client.%s: reply %r -> %r" % (mname, reply, want), "Client.%s:reply:%s" % (mname, reply.decode().split(" ")[0]), "Client.%s %s for the server reply %r; the documented result is %r" % (mname, got, reply, want), f, w)
    n_rows += storage_rows(prog, r3, tier=chk.tier)
    n_rows += retrieval_rows(prog, r3)
    size_thresholds(prog, r3)
    r3.count("rows", n_rows)

    # ------------------------------------------------------------------ R4 noreply constants and defaults
    r4 = chk.rule("C05.R4", "with noreply the documented constant is returned; signature defaults are the documented ones and None resolves to default_noreply before use")
    for mname, want in sorted(spec.NOREPLY_CONSTANT.items()):
        f = prog.method("Client", mname)
        # evaluated end to end with noreply set: no reply line is available, the documented constant comes back
        many = mname in ("set_many", "delete_many")
        for n in ((0, 1, 2) if many else (1,)):
            pred = (lambda v: v == TupleV(())) if mname == "set_many" else (lambda v, want=want: isinstance(v, Const) and v.v is want)
            st, got, w = judge(script_eval(prog, mname, (), nkeys=n, noreply=True, full=True), "ret", pred)
            settle(r4, st, "Client.%s%s: noreply -> %r" % (mname, "(%d keys)" % n if many else "", want), "Client.%s:noreply-constant" % mname, "with noreply Client.%s %s; the documented constant is %r (no reply is read, so nothing can be reported as failed)" % (mname, got, want), f, w)
    for mname in spec.NOREPLY_DEFAULT_NONE + spec.NOREPLY_DEFAULT_FALSE:
        f = prog.method("Client", mname)
        p = f.param("noreply")
        want = None if mname in spec.NOREPLY_DEFAULT_NONE else False
        ok = p is not None and isinstance(p.default, ast.Constant) and p.default.value is want
        r4.expect(ok, "Client.%s(noreply=%r)" % (mname, want), "Client.%s:noreply-default" % mname, "the default of noreply in Client.%s is %s; documented: %r%s" % (mname, node_src(p.default) if p is not None and p.default is not None else None, want, " (= default_noreply)" if want is None else ""), fn=f, node=f.node)
        if want is None:
            # interpreted end to end: noreply=None behaves as self.default_noreply says, an explicit value wins over it
            # (that the same value puts ` noreply` on the wire is the coupling rule C01.R2b, included below)
            nk, rep = [(n, r_) for n, r_ in spec.CALL_SCRIPTS[mname] if r_][0]
            problems = []
            vague_rows = []
            for given, dflt in ((None, True), (None, False), (True, False), (False, True)):
                effective = dflt if given is None else given
                outs = script_eval(prog, mname, () if effective else rep, nkeys=nk, noreply_arg=given, default_noreply=dflt, full=True)
                rets = outs.of("ret")
                reads = {s_.get("#nread", 0) for s_, v, t in rets} | {1 for s_, e, t in outs.of("exc") if s_.get("#overread", 0)}
                want_reads = {0} if effective else {len(rep)}
                if (not rets or reads != want_reads) and any(s_.get("#imprecise", 0) for s_, v, t in rets + outs.of("exc")):
                    vague_rows.append("with noreply=%r and default_noreply=%r (a path on which the analysis guessed)" % (given, dflt))
                    continue
                if not rets or reads != want_reads:
                    problems.append("with noreply=%r and default_noreply=%r the call %s (expected: %s)" % (given, dflt, "reads %s reply item(s)" % sorted(reads) if rets else "does not return", "no reply is awaited" if effective else "the %d reply item(s) are read" % len(rep)))
            if vague_rows and not problems:
                r4.undecided("Client.%s:noreply-resolution" % mname, "Client.%s: %s" % (mname, "; ".join(vague_rows[:2])))
                continue
            r4.expect(not problems, "Client.%s: noreply=None means self.default_noreply, an explicit noreply wins" % mname, "Client.%s:noreply-resolution" % mname, "Client.%s: %s" % (mname, "; ".join(problems)), fn=f, node=f.node)
    # ------------------------------------------------------------------ R5 error replies are raised, for every reply line
    r5 = chk.rule("C05.R5", "error replies: ERROR / CLIENT_ERROR / SERVER_ERROR lines raise the documented exception, and every reply line read by an exchange passes that test before it is interpreted")
    re_fn = prog.method("Client", "_raise_errors")
    table = {b"ERROR": "MemcacheUnknownCommandError", b"ERROR extra": "MemcacheUnknownCommandError", b"CLIENT_ERROR bad data chunk": "MemcacheClientError", b"SERVER_ERROR out of memory": "MemcacheServerError", b"STORED": None, b"END": None, b"VALUE k 0 1": None, b"5": None}
    for line, want in sorted(table.items()):
        dom = StoreDomain(prog, re_fn, (), False, exn, exn, ())  # exact collections: a table of (prefix, class) pairs is walked exactly
        pn = [p.name for p in re_fn.pos_params()]
        outs = Interp(dom, re_fn.node, prog).run(Env({pn[0]: Const(line), pn[1]: Const(b"cmd")}))
        st, got, w = judge(outs, "ret", lambda v: True) if want is None else judge(outs, "raise", want)
        settle(r5, st, "_raise_errors(%r) -> %s" % (line, want or "no error"), "Client._raise_errors:%s" % line.decode().split(" ")[0], "for the reply line %r _raise_errors %s; documented: %s" % (line, got, ("raise " + want) if want else "no error"), re_fn, w)
    # every public method, evaluated end to end against scripted replies: an error line raises its exception at the
    # first reply position and after a valid first reply (multi-line / multi-command exchanges)
    errs = {b"ERROR": "MemcacheUnknownCommandError", b"CLIENT_ERROR bad command line format": "MemcacheClientError", b"SERVER_ERROR out of memory": "MemcacheServerError"}
    n_meth = 0
    for m in wire.wire_methods(prog):
        prefixes = [()]
        if m.name in spec.VALID_FIRST_REPLY:
            prefixes.append(spec.VALID_FIRST_REPLY[m.name])
        probe = script_eval(prog, m.name, (), full=True)
        if probe.of("ret") and not any(s_.get("#imprecise", 0) for s_, v, t in probe.of("ret")):
            continue  # the method returns without reading any reply (quit)
        n_meth += 1
        for pre in prefixes:
            for line, want in sorted(errs.items()):
                st, got, w = judge(script_eval(prog, m.name, tuple(pre) + (line,), full=True), "raise", want)
                pos = "first reply line" if not pre else "reply line after %s" % (pre[0].split(b" ")[0].decode())
                settle(r5, st, "Client.%s: %s as %s -> %s" % (m.name, line.split(b" ")[0].decode(), pos, want), "Client.%s:%s:%s" % (m.name, "first" if not pre else "later", line.split(b" ")[0].decode()), "Client.%s %s when the %s is %r; it must raise %s (an error reply is never interpreted as a result)" % (m.name, got, pos, line, want), m, w)
    r5.floor("methods that read replies", n_meth, 20)
    # a call's result is computed from its whole reply, and only from it (the C01 framing rule)
    from . import rules_C01, report

    report.include_rules(chk, r5, rules_C01, ("C01.R3",), "each call reads exactly the reply lines of its own commands, up to the terminator")
    from . import rules_C12

    from . import rules_C03

    report.include_rules(chk, r3, rules_C03, ("C03.R5",), "the value handed to the caller is the data block the server sent, byte for byte (the readers take it by its announced size and look at none of its bytes)")
    report.include_rules(chk, r3, rules_C12, ("C12.R4",), "through HashClient the result is the merge of what every server answered: a key a server holds is not reported absent, a failed store is not reported stored")
    report.include_rules(chk, r5, rules_C01, ("C01.R1",), "a call that ends with an error reply leaves no unread replies of its batch on a connection that stays in use: later calls would report those as their own outcome")
    # the value that decides whether replies are read is the one that put ` noreply` on the wire (same rule as C01.R2b)
    wire.check_noreply_coupling(prog, r4)
    chk.assume("the server answers with a reply from the verb's alphabet (error lines are handled by _raise_errors before these tables)")
