"""C01 - a call only ever consumes the server's reply to its own request (structural clauses)."""
import ast

from .model import AnalysisError, node_src, is_self_attr, call_name
from .paths import Interp, Env, ORD, ASYNC, fmt_trace, Ctx, Domain, Exc, NONE, TOP, Const
from . import exchange
from .report import walk_no_nested

LEVEL = "other"
LEVEL_TEXT = (
    "Static path and structure rules that are necessary conditions of reply ownership: close-before-escape on every "
    "ordinary-exception exit after sendall (R1), noreply <=> no read, coupled with the wire token at every call site "
    "(R2), each public method interpreted end to end consumes exactly the reply the protocol defines for its own commands (R3), no receive state survives a call (R4), only Client talks to "
    "sockets (R5), a module-level send helper is exactly one send with failures passed on (R7), the reply to a raw command is read once and ended at the caller's end token (R8). Parsing under segmentation is C03 (its rules R1/R4/R6 are re-run here); misbehaving servers are not decided."
)
TRUSTED = ["CPython ast", "pmcsa/paths.py interpreter", "pmcsa/wire.py fragment evaluator (R2b)", "summary: Client.close does not raise (decided by C06.R6)"]

TERMINATORS = (b"END", b"OK")


def run(chk):
    prog = chk.prog
    direct, readers = exchange.recv_reaching_functions(prog)
    rmeth = exchange.methods_reaching_readers(prog, readers)
    exch = exchange.exchange_functions(prog)

    # ------------------------------------------------------------------ R1
    r1 = chk.rule("C01.R1", "after sendall every exit reached through an ordinary exception (re-raise or ignore_exc return) passes Client.close")
    r1.floor("exchange functions", len(exch), 3)
    r1.floor("recv-reaching reader functions", len(readers), 4)
    runs_by_fn = {}
    for fn in exch:
        runs = exchange.analyse_exchange(prog, fn, readers, rmeth, with_async=False)
        runs_by_fn[fn.qualname] = runs
        obs = exchange.close_obligations(prog, fn, runs, ORD)
        if not obs:
            raise AnalysisError("C01.R1: no ORD exit after sendall found in %s" % fn.qualname)
        seen = set()
        for ok, kind, exc, cfg, t, s in obs:
            if ok:
                continue
            if kind == "raise":
                stmt = stmt_at(fn.node, exc.origin)
                key = "%s:ORD-exit-without-close:%s" % (fn.qualname, stmt)
                if key in seen:
                    continue
                seen.add(key)
                r1.fail("%s:ORD-exit-without-close:%s" % (fn.qualname, stmt), "an ordinary exception raised by `%s` after sendall escapes %s without Client.close: the reply stays queued on a socket that remains in use (handler path: %s)" % (stmt, fn.qualname, exchange.handler_desc(t)), fn=fn, line=exc.origin, witness=fmt_trace(t))
            else:
                key = "%s:swallow-without-close" % fn.qualname
                if key in seen:
                    continue
                seen.add(key)
                r1.fail(key, "%s swallows an exception raised after sendall and returns normally without Client.close (config %s)" % (fn.qualname, cfg), fn=fn, witness=fmt_trace(t))
        n_ok = len([o for o in obs if o[0]])
        if not seen:
            r1.ok("%s: %d ORD exits after sendall, all pass Client.close" % (fn.qualname, n_ok))
        r1.count("ORD exits examined", len(obs))

    # ------------------------------------------------------------------ R2a / R3(reads)
    r2 = chk.rule("C01.R2a", "noreply truthy => no reader call is reachable; noreply falsy => no normal return after sendall without reading")
    helpers = exchange.send_helpers(prog)
    rr_fns = [f for f in exch if f.name not in helpers]
    r2.floor("request/response functions", len(rr_fns), 3)
    for fn in rr_fns:
        for cfg, outs, dom, interp in runs_by_fn[fn.qualname]:
            nr = cfg["noreply"]
            if nr is True:
                bad = [e for e in dom.events if e[0] == "read"]
                if bad:
                    r2.fail("%s:read-with-noreply" % fn.qualname, "%s reaches the reader call `%s` although noreply is truthy: it would block on a reply that never comes" % (fn.qualname, node_src(bad[0][1])), fn=fn, node=bad[0][1])
                else:
                    r2.ok("%s(noreply=True, ignore_exc=%s): no reader call reachable" % (fn.qualname, cfg["ignore_exc"]))
            else:
                # noreply falsy => the reply is read: decided per public method by C01.R3 (reads consumed = reply lines
                # the protocol defines for the commands of the call, for 0, 1 and 2 keys); here only reachability
                r2.expect(bool([e for e in dom.events if e[0] == "read"]), "%s(noreply=%s, ignore_exc=%s): a reader call is reachable" % (fn.qualname, nr, cfg["ignore_exc"]), "%s:return-without-read" % fn.qualname, "%s never reaches a reader call although it did not ask for noreply" % fn.qualname, fn=fn)
        if not any(True for cfg, outs, dom, interp in runs_by_fn[fn.qualname] if dom.n_sendall):
            raise AnalysisError("C01.R2a: sendall never reached in %s" % fn.qualname)

    # ------------------------------------------------------------------ R2b noreply coupling at call sites
    from . import wire

    r2b = chk.rule("C01.R2b", "at every call site of the store/misc exchange functions the noreply argument is the value that guards the ` noreply` token on the wire")
    n_sites = wire.check_noreply_coupling(prog, r2b)
    r2b.floor("call sites of _store_cmd/_misc_cmd-like exchange functions", n_sites, 17)

    # ------------------------------------------------------------------ R3 one reply per command
    r3 = chk.rule("C01.R3", "each call consumes exactly the reply the protocol defines for its own commands: it returns only after the last line of that reply and never asks for more (every public method, 0/1/2 keys, evaluated end to end against scripted replies)")
    reply_consumption(prog, r3, tier=chk.tier)
    from .rules_C05 import size_thresholds

    size_thresholds(prog, r3)

    # ------------------------------------------------------------------ R4 no bytes survive a call
    r4 = chk.rule("C01.R4", "exchange functions and readers keep receive state in locals only (no attribute or module-level writes)")
    mod = prog.module(exchange.READERS_BASE)
    scope = list(exch) + [mod.functions[n] for n in sorted(readers)] + [prog.method("Client", m) for m in sorted(rmeth)]
    modnames = set(mod.assigns)
    for f in scope:
        bad = []
        for n in walk_no_nested(f.node):
            tgts = []
            if isinstance(n, ast.Assign):
                tgts = n.targets
            elif isinstance(n, (ast.AugAssign, ast.AnnAssign)):
                tgts = [n.target]
            elif isinstance(n, (ast.Global, ast.Nonlocal)):
                bad.append((n, "global/nonlocal declaration"))
            for t in tgts:
                for x in ast.walk(t):
                    if isinstance(x, ast.Attribute) and isinstance(x.ctx, ast.Store):
                        bad.append((n, "attribute write `%s`" % node_src(x)))
                    if isinstance(x, ast.Subscript) and isinstance(x.ctx, ast.Store) and isinstance(x.value, ast.Name) and x.value.id in modnames and not _is_local(f, x.value.id):
                        bad.append((n, "write into module-level `%s`" % x.value.id))
            if isinstance(n, ast.Call) and isinstance(n.func, ast.Attribute) and n.func.attr in ("append", "extend", "update", "add", "insert", "setdefault") and isinstance(n.func.value, ast.Name) and n.func.value.id in modnames and not _is_local(f, n.func.value.id):
                bad.append((n, "mutation of module-level `%s`" % n.func.value.id))
        for n, what in bad:
            r4.fail("%s:%s" % (f.qualname, what.split("`")[0].strip().replace(" ", "-") + (":" + what.split("`")[1] if "`" in what else "")), "%s performs %s: bytes or parser state could survive the call" % (f.qualname, what), fn=f, node=n)
        if not bad:
            r4.ok("%s writes only locals" % f.qualname, sample=False)
    r4.count("functions inspected", len(scope))

    # ------------------------------------------------------------------ R5 only Client talks to sockets
    r5 = chk.rule("C01.R5", "sendall/recv call sites exist only in Client's exchange functions and the reader functions; wrappers never touch .sock")
    n_send = n_recv = 0
    for f in prog.all_functions():
        for n in walk_no_nested(f.node):
            if isinstance(n, ast.Call) and isinstance(n.func, ast.Attribute) and n.func.attr in ("sendall", "send", "sendto", "sendmsg"):
                n_send += 1
                ok = (f.cls is not None and f.cls.name == "Client" and f.name.startswith("_")) or (f.cls is None and f.name in getattr(prog, "send_helpers", {}))  # the exchange functions or their send helper
                r5.expect(ok, "send site in %s" % f.qualname, "%s:send-outside-Client" % f.qualname, "%s calls .%s on a socket outside Client's exchange functions" % (f.qualname, n.func.attr), fn=f, node=n)
            if isinstance(n, ast.Call) and isinstance(n.func, ast.Attribute) and n.func.attr in ("recv", "recv_into", "recvfrom", "makefile"):
                n_recv += 1
                ok = f.cls is None and f.module.rel == exchange.READERS_BASE and f.name in direct
                r5.expect(ok and len(direct) == 1, "recv site in %s" % f.qualname, "%s:recv-outside-_recv" % f.qualname, "%s calls .%s; the single receive site must be the EINTR-retrying helper" % (f.qualname, n.func.attr), fn=f, node=n)
            if isinstance(n, ast.Attribute) and n.attr == "sock" and not (f.cls is not None and f.cls.name == "Client"):
                r5.fail("%s:touches-.sock" % f.qualname, "%s accesses .sock of a client" % f.qualname, fn=f, node=n)
    n_helper_calls = sum(1 for f in prog.cls("Client").methods.values() for n in walk_no_nested(f.node) if isinstance(n, ast.Call) and isinstance(n.func, ast.Attribute) and is_self_attr(n.func) and n.func.attr in helpers)
    r5.floor("send sites (sendall + send-helper calls)", n_send + n_helper_calls, 3)
    r5.floor("sendall sites", n_send, 1)
    r5.floor("recv sites", n_recv, 1)
    # ------------------------------------------------------------------ R7 a send helper is one send
    r7 = chk.rule("C01.R7", "a module-level send helper is one send: on every path it calls sendall once with the data it was given, passes every failure on, and never sends again after a failure (bytes already written would be written twice and answered twice)")
    helpers7 = getattr(prog, "send_helpers", {})
    for hname, (si, di) in sorted(helpers7.items()):
        hf = prog.function("pymemcache/client/base.py", hname)
        dom7 = _SendOnce(prog, hf)
        outs7 = Interp(dom7, hf.node, prog).run(Env({"#sends": 0, "#failed": 0}))
        probs = list(dom7.problems)
        for s_, v, t in outs7.of("ret"):
            if s_.get("#sends", 0) != 1:
                probs.append("returns normally after %d successful sends" % s_.get("#sends", 0))
        for s_, e, t in outs7.of("exc"):
            if not s_.get("#failed", 0):
                probs.append("raises %s although the send did not fail" % e.cls)
        r7.expect(not probs, "%s is one sendall of its data, failures passed on" % hname, "%s:not-one-send" % hname, "%s %s: what reaches the server is no longer exactly the request the caller built (a resent prefix is parsed as further commands, whose replies the next calls read)" % (hname, "; ".join(dict.fromkeys(probs))), fn=hf, node=hf.node)
    if not helpers7:
        r7.ok("no module-level send helper: every send is a sendall in Client's exchange functions")

    # ------------------------------------------------------------------ R6 segmentation (the C03 rules)
    r6 = chk.rule("C01.R6", "whatever way the reply is cut into pieces, the same bytes are consumed: the carry-over rules of the readers (C03.R1 no received byte dropped, C03.R4 the end-token search sees all unconsumed bytes)")
    from . import rules_C03, report

    report.include_rules(chk, r6, rules_C03, ("C03.R1", "C03.R4", "C03.R6"), "a reply that arrives in several pieces is consumed like one that arrives whole")
    from . import rules_C04

    report.include_rules(chk, r6, rules_C04, ("C04.R1",), "a store command announces the length of exactly the block it sends: otherwise the server parses the surplus as commands and answers them, and those replies are read by later calls")
    # ------------------------------------------------------------------ R8 framing of a raw command's reply
    framing_rows(chk)
    chk.assume("Client.close does not raise ordinary exceptions (C06.R6)")
    chk.assume("the server answers each command with the number of reply lines the protocol defines")


def framing_rows(chk, rule_id="C01.R8"):
    """raw_command(command, end_tokens): the reply is read by exactly one reader call, and that reader ends the reply at
    the caller's end token (what each reader kind does with a terminator or a size is C03.R6)."""
    from . import seghist
    from .rules_C05 import script_eval

    prog = chk.prog
    r8 = chk.rule(rule_id, "the reply to raw_command is read once, by a reader that ends it at the caller's end token (bytes or str; CR LF when none is given): the bytes of the reply are consumed up to exactly that token and nothing of the next reply")
    f = prog.method("Client", "raw_command", required=False)
    if f is None or f.param("end_tokens") is None:
        r8.undecided("Client.raw_command:signature", "Client.raw_command(command, end_tokens) was not found")
        return
    mod = prog.module(exchange.READERS_BASE)
    n = 0
    for given, want in ((None, b"\r\n"), (b"\r\n", b"\r\n"), ("\r\n", b"\r\n"), (b"\n\r\nEND\r\n", b"\n\r\nEND\r\n"), ("END\r\n", b"END\r\n"), (b"...", b"...")):
        for cmd in (b"config get cluster", "verbosity 1"):
            outs = script_eval(prog, "raw_command", (b"OK",), nkeys=0, full=True, bind={"command": cmd, "end_tokens": given})
            n += 1
            what = "raw_command(%r, end_tokens=%s)" % (cmd, "not given" if given is None else repr(given))
            key = "Client.raw_command:framing"
            rets = outs.of("ret")
            if not rets:
                r8.fail(key, "%s does not return the reply (%s)" % (what, sorted({str(e.cls) for s_, e, t in outs.of("exc")})), fn=f)
                continue
            bad, undec = [], []
            for s_, v, t in rets:
                reads = s_.get("#reads", ())
                if s_.get("#imprecise", 0):
                    undec.append("a path the analysis does not follow exactly")
                    continue
                if len(reads) != 1:
                    bad.append("reads %d times" % len(reads))
                    continue
                rname, pos, kw = reads[0]
                rf = mod.functions.get(rname)
                kind, third = seghist.reader_kind(rf) if rf is not None else (None, None)
                if kind == "line":
                    tok = Const(b"\r\n")
                elif kind == "token":
                    tok = dict(kw).get(third, pos[0] if pos else dict(kw).get("#pos2"))
                else:
                    undec.append("the reply is read by %s, whose kind (%s) frames nothing" % (rname, kind))
                    continue
                if tok is None or not isinstance(tok, Const):
                    undec.append("the end token handed to %s is not followed (%s)" % (rname, tok))
                elif tok.v != want:
                    bad.append("the reply is ended at %r by %s where the caller's end token is %r" % (tok.v, rname, want))
            if bad:
                r8.fail(key, "%s: %s - the reply is cut short (its rest is read by the next call as that call's reply) or the call waits for a token that never comes" % (what, "; ".join(sorted(set(bad)))), fn=f)
            elif undec:
                r8.undecided(key, "%s: %s" % (what, "; ".join(sorted(set(undec)))))
            else:
                r8.ok("%s: one read, ended at %r" % (what, want))
    r8.floor("framing rows", n, 12)


class _SendOnce(Domain):
    """A send helper interpreted: sendall succeeds or raises OSError; what is counted is sends after a failure."""

    async_enabled = False

    def __init__(self, prog, fn):
        super().__init__(prog, fn)
        self.problems = []

    def call(self, node, fval, args, kwargs, state):
        if isinstance(node.func, ast.Attribute) and node.func.attr in ("sendall", "send"):
            if state.get("#failed", 0):
                self.problems.append("calls %s again after a send on the same socket has failed" % node.func.attr)
            return [("ok", NONE, state.set("#sends", min(3, state.get("#sends", 0) + 1))), ("exc", Exc(ORD, "OSError", node.lineno), state.set("#failed", 1))]
        return [("ok", TOP, state)]


def _is_local(f, name):
    for n in walk_no_nested(f.node):
        if isinstance(n, ast.Name) and n.id == name and isinstance(n.ctx, ast.Store):
            return True
    return any(p.name == name for p in f.params)


def stmt_at(fn_node, lineno):
    from .rules_C06 import stmt_at as s

    return s(fn_node, lineno)


def verdict(rule, offending, what, construct, msg, fn):
    """offending: outcomes (state, value, trace) that contradict the obligation.  One that lies on a path where the
    abstraction guessed (a loop over an unknown iterable) makes the obligation undecided, not violated."""
    if not offending:
        rule.ok(what)
        return
    exact = [o for o in offending if not o[0].get("#imprecise", 0)]
    if exact:
        rule.fail(construct, msg, fn=fn, witness=fmt_trace(exact[0][2]) if exact[0][2] else None)
    else:
        rule.undecided(construct, "%s -- %s (on a path through a loop over an iterable the analysis does not know)" % (what, msg))


def reply_consumption(prog, r3, tier="quick"):
    """For every public method of Client that talks to the server and every reply script of spec.CALL_SCRIPTS:
    with the full reply the method returns having read all of it and nothing beyond; with the reply cut before its last
    item it does not return; with noreply it reads nothing."""
    from . import wire, spec
    from .rules_C05 import script_eval

    methods = wire.wire_methods(prog)
    n_scripts = 0
    for m in methods:
        scripts = spec.CALL_SCRIPTS.get(m.name)
        if scripts is not None and tier == "thorough":
            scripts = list(scripts) + spec.CALL_SCRIPTS_THOROUGH.get(m.name, [])
        if scripts is None:
            r3.fail("Client.%s:no-reply-script" % m.name, "Client.%s sends a command but pmcsa/spec.py defines no protocol reply for it: add the method to CALL_SCRIPTS" % m.name, fn=m)
            continue
        variants = [(n, r, False, False) for n, r in scripts]
        if m.param("keys") is not None:
            variants += [(n, r, True, False) for n, r in scripts if n]
        if m.param("values") is not None:
            # two caller keys with one wire form ("k" and b"k"): still two commands and two replies
            variants += [(2, r, False, True) for n, r in scripts if n == 2]
        for nkeys, replies, oneshot, alias in variants:
            n_scripts += 1
            shown = [r.decode() if isinstance(r, bytes) else "<close>" for r in replies]
            outs = script_eval(prog, m.name, replies, nkeys=nkeys, full=True, oneshot=oneshot, alias=alias)
            rets, excs = outs.of("ret"), outs.of("exc")
            over = [(s, e, t) for s, e, t in excs if s.get("#overread", 0)] + [(s, v, t) for s, v, t in rets if s.get("#overread", 0)]
            short = [(s, v, t) for s, v, t in rets if s.get("#nread", 0) < len(replies)]
            what = "Client.%s(%d key%s%s%s), reply %s" % (m.name, nkeys, "" if nkeys == 1 else "s", " given as a one-shot iterator" if oneshot else "", " with the same wire form" if alias else "", shown)
            verdict(r3, over, "%s: nothing is read beyond the reply" % what, "Client.%s:reads-beyond-reply" % m.name, "%s: the call tries to read another reply item after the %d the protocol defines: it blocks, or consumes the reply of the next request" % (what, len(replies)), m)
            verdict(r3, short, "%s: returns only after the whole reply" % what, "Client.%s:returns-before-end-of-reply" % m.name, "%s: the call can return after %s of %d reply items: the rest stays queued on the connection and is taken for the reply to the next request" % (what, sorted({s.get("#nread", 0) for s, v, t in short}), len(replies)), m)
            if not rets and not over:
                bad = [(s, e, t) for s, e, t in excs]
                verdict(r3, bad or [(Env(), None, ())], "%s: the call returns" % what, "Client.%s:valid-reply-rejected" % m.name, "%s: the call never returns normally for this valid reply (it raises %s)" % (what, sorted({str(e.cls) for s, e, t in excs})), m)
            if replies:
                outs = script_eval(prog, m.name, replies[:-1], nkeys=nkeys, full=True, oneshot=oneshot, alias=alias)
                early = outs.of("ret")
                verdict(r3, early, "%s cut before its last item: no return" % what, "Client.%s:returns-before-end-of-reply" % m.name, "%s: with the last item missing the call still returns (%s): it does not wait for the end of its reply" % (what, sorted({str(v) for s, v, t in early})), m)
        if m.param("noreply") is not None:
            for nkeys in sorted({n for n, r in scripts}):
                n_scripts += 1
                outs = script_eval(prog, m.name, (), nkeys=nkeys, noreply=True, full=True)
                tried = [(s, e, t) for s, e, t in outs.of("exc") if s.get("#overread", 0)] + [(s, v, t) for s, v, t in outs.of("ret") if s.get("#overread", 0) or s.get("#nread", 0)]
                verdict(r3, tried, "Client.%s(%d keys, noreply): reads nothing" % (m.name, nkeys), "Client.%s:read-with-noreply" % m.name, "Client.%s with noreply tries to read a reply that the server will never send" % m.name, m)
                if not outs.of("ret") and not tried:
                    verdict(r3, outs.of("exc") or [(Env(), None, ())], "Client.%s(%d keys, noreply): returns" % (m.name, nkeys), "Client.%s:read-with-noreply" % m.name, "Client.%s with noreply never returns normally" % m.name, m)
    r3.floor("methods", len(methods), 25)
    r3.count("scripts", n_scripts)
