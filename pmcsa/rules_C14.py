"""C14 - murmur3_32 equals the reference MurmurHash3 x86_32 (value-graph translation validation mod 2**32)."""
import ast

from .model import AnalysisError, node_src
from . import termeval as te
from .termeval import T, const, mk_ac, mk_shl, mk_shr, mk_and, mk_rotl, show, Evaluator, AStrSym, Idx, Unsupported
from .report import walk_no_nested

LEVEL = "translation_validation"
LEVEL_TEXT = (
    "murmur3_32 is straight-line integer code inside one counted loop. Each region (initialisation, loop header, block "
    "body as a function of (h, b0..b3), tail for len%4 in {0,1,2,3} followed by the finaliser) is translated to a "
    "normalised term over +,*,^,|,&,<<,>> modulo 2**32 and compared for syntactic equality with the term of the "
    "reference algorithm (written in the checker from Appleby's MurmurHash3_x86_32); a separate width analysis shows "
    "that every operand of >> and the returned value are below 2**32, which is exactly where Python's unbounded "
    "integers could diverge from uint32_t. Decided for code points 0..255 (the property's assumption) and len < 2**32."
)
TRUSTED = ["CPython ast", "pmcsa/termeval.py (term normaliser; soundness of reduction mod 2**32 for + * << | ^ &)", "reference terms in pmcsa/rules_C14.py transcribed from MurmurHash3_x86_32"]

C1 = 0xCC9E2D51
C2 = 0x1B873593


def byte(base, k):
    return ("byte", base, k)


def mix_k(k):
    k = mk_ac("mul", [k, const(C1)])
    k = mk_rotl(k, 15)
    k = mk_ac("mul", [k, const(C2)])
    return k


def ref_block(h):
    k = mk_ac("or", [byte("i", 0), mk_shl(byte("i", 1), 8), mk_shl(byte("i", 2), 16), mk_shl(byte("i", 3), 24)])
    h = mk_ac("xor", [h, mix_k(k)])
    h = mk_rotl(h, 13)
    h = mk_ac("add", [mk_ac("mul", [h, const(5)]), const(0xE6546B64)])
    return h


def ref_tail(h, r):
    if r == 0:
        return h
    parts = []
    if r >= 3:
        parts.append(mk_shl(byte("R", 2), 16))
    if r >= 2:
        parts.append(mk_shl(byte("R", 1), 8))
    parts.append(byte("R", 0))
    k = mk_ac("xor", parts) if len(parts) > 1 else parts[0]
    return mk_ac("xor", [h, mix_k(k)])


def ref_final(h):
    h = mk_ac("xor", [h, ("sym", "len")])
    h = mk_ac("xor", [h, mk_shr(h, 16)])
    h = mk_ac("mul", [h, const(0x85EBCA6B)])
    h = mk_ac("xor", [h, mk_shr(h, 13)])
    h = mk_ac("mul", [h, const(0xC2B2AE35)])
    h = mk_ac("xor", [h, mk_shr(h, 16)])
    return h


def subst_len0(t):
    """The reference term for len == 0: ('sym','len') replaced by 0 and re-normalised."""
    if t == ("sym", "len"):
        return const(0)
    if not isinstance(t, tuple) or not t:
        return t
    k = t[0]
    if k in ("xor", "add", "mul", "or"):
        return mk_ac(k, [subst_len0(x) for x in t[1]])
    if k == "join":
        return mk_ac("or", [subst_len0(x) for x in t[1]])
    if k == "shr":
        return mk_shr(subst_len0(t[1]), t[2])
    if k == "shl":
        return mk_shl(subst_len0(t[1]), t[2])
    if k == "and":
        return mk_and(subst_len0(t[1]), t[2])
    if k == "rotl":
        return mk_rotl(subst_len0(t[1]), t[2])
    return t


def has_uf(t):
    if not isinstance(t, tuple):
        return False
    if t and t[0] == "uf":
        return True
    return any(has_uf(x) for x in t if isinstance(x, tuple))


def run(chk):
    prog = chk.prog
    fn = prog.function("pymemcache/client/murmur3.py", "murmur3_32")
    pp = fn.pos_params()
    if len(pp) != 2:
        raise AnalysisError("murmur3_32 no longer takes (data, seed)")
    dname, sname = pp[0].name, pp[1].name
    body = [s for s in fn.node.body if not (isinstance(s, ast.Expr) and isinstance(s.value, ast.Constant))]
    loops = [s for s in body if isinstance(s, (ast.For, ast.While))]
    r0 = chk.rule("C14.R0", "shape: one counted block loop at top level; seed default 0")
    if len(loops) != 1 or not isinstance(loops[0], ast.For):
        raise Unsupported("murmur3_32 does not have exactly one top-level for loop (found %d): unsupported shape for the value-graph check" % len(loops))
    loop = loops[0]
    pre = body[: body.index(loop)]
    post = body[body.index(loop) + 1:]
    sd = pp[1].default
    r0.expect(isinstance(sd, ast.Constant) and sd.value == 0, "seed defaults to 0", "murmur3_32:seed-default", "the default seed is %s, not 0: placement changes for every caller that relies on the default" % (node_src(sd) if sd is not None else None), fn=fn, node=fn.node)

    r1 = chk.rule("C14.R1", "width discipline: every operand of >> and the returned value are below 2**32 (non-negative)")
    r2 = chk.rule("C14.R2", "purity: no calls other than len/ord/range, no globals, no attribute access; the input string is hashed as given")
    # no memory between calls (decided before the value graph is built: a memo table is reported as what it is, also when
    # the code around it is beyond the term evaluator)
    from .report import memory_between_calls

    mem_scope, todo_m = [], [fn]
    while todo_m:
        g_ = todo_m.pop()
        if g_ in mem_scope:
            continue
        mem_scope.append(g_)
        for n_ in ast.walk(g_.node):
            if isinstance(n_, ast.Call) and isinstance(n_.func, ast.Name) and n_.func.id in fn.module.functions:
                todo_m.append(fn.module.functions[n_.func.id])
    for g_ in mem_scope:
        for n_, what in memory_between_calls(g_):
            r2.fail("%s:memory:%s" % (g_.name, what.split(":")[0].split("`")[0].strip().replace(" ", "-")[:40]), "%s %s: the value returned for a string can depend on what was hashed before (another seed, another caller), so it is not a function of (data, seed)" % (g_.name, what), fn=g_, node=n_)
        for n_ in ast.walk(g_.node):
            if isinstance(n_, ast.Name) and isinstance(n_.ctx, ast.Load) and n_.id in g_.module.assigns and isinstance(g_.module.assigns[n_.id], (ast.Dict, ast.List, ast.Set, ast.DictComp, ast.ListComp)) or (isinstance(n_, ast.Name) and isinstance(n_.ctx, ast.Load) and n_.id in g_.module.assigns and isinstance(g_.module.assigns[n_.id], ast.Call) and not isinstance(getattr(n_, "_parent", None), ast.Call)):
                r2.fail("%s:module-state:%s" % (g_.name, n_.id), "%s reads the module-level mutable `%s`: the hash is no longer a function of its arguments alone" % (g_.name, n_.id), fn=g_, node=n_)
                break
    r3 = chk.rule("C14.R3", "value graph equals the reference for: initial state, loop header and indices, block body, tails 0..3 + finaliser")
    programs = 0
    samples = []

    def env0():
        return {dname: AStrSym(), sname: T(("sym", "seed"), 32)}

    # ---- the empty input, if the code treats it apart (an early return on `not data` / `not length`): evaluated as its
    # own scenario; every other region below is evaluated for len >= 1, and for len == 0 unless such a return exists
    ev_e = Evaluator(fn, env0(), length="zero")
    res_e = ev_e.block(pre)
    programs += 1
    if res_e is not None:
        rv = res_e[1]
        want_e = subst_len0(ref_final(ref_tail(("sym", "seed"), 0)))
        got_e = rv.t if isinstance(rv, T) else None
        _cmp(r3, isinstance(rv, T) and got_e == want_e, got_e, want_e, "empty input: finaliser(seed)", "murmur3_32:empty-input", "for the empty string the function returns %s", fn, pre[0] if pre else fn.node)
        if isinstance(rv, T):
            r1.expect(rv.w is not None and rv.w <= 32, "returned value has at most 32 bits (empty input)", "murmur3_32:return-width", "the value returned for the empty string is not bounded by 32 bits (width %s)" % rv.w, fn=fn, node=fn.node)
    # ---- pre-loop
    ev = Evaluator(fn, env0())
    res_n = ev.block(pre)
    if res_n is not None:
        raise Unsupported("murmur3_32 returns before the block loop for a non-empty input")
    if ev.len_tests and res_e is None:
        raise Unsupported("the code before the block loop branches on the length without returning: unsupported shape")
    env_pre = dict(ev.env)
    width_bad = list(ev.width_violations)
    calls = set(ev.calls)
    data_v = env_pre.get(dname)
    if not isinstance(data_v, AStrSym):
        raise Unsupported("the data parameter is rebound to a non-string before hashing")
    r2.expect(data_v.how == "arg", "the code points hashed are those of the argument", "murmur3_32:input-transformed", "the input is transformed before hashing (%s): for code points 128..255 the bytes hashed are no longer the code points of the argument, so the value differs from MurmurHash3 of those bytes" % data_v.how, fn=fn, node=fn.node)
    assigned_in_body = set()
    for n in ast.walk(loop):
        if isinstance(n, ast.Name) and isinstance(n.ctx, ast.Store):
            assigned_in_body.add(n.id)
    loopvar = loop.target.id if isinstance(loop.target, ast.Name) else None
    carried = sorted(v for v in assigned_in_body if v in env_pre and v != loopvar)
    if len(carried) != 1:
        raise Unsupported("expected exactly one loop-carried accumulator, found %s" % carried)
    h = carried[0]
    hv = env_pre[h]
    programs += 1
    ok = isinstance(hv, T) and hv.t == ("sym", "seed")
    _cmp(r3, ok, hv.t if isinstance(hv, T) else None, ("sym", "seed"), "initial state h = seed", "murmur3_32:init", "the hash state is initialised to %s instead of the seed", fn, pre[-1] if pre else fn.node)

    # ---- loop header
    it = loop.iter
    Rterm = mk_and(("sym", "len"), 0xFFFFFFFC)
    if not (isinstance(it, ast.Call) and isinstance(it.func, ast.Name) and it.func.id == "range"):
        raise Unsupported("block loop does not iterate a range()")
    ev_h = Evaluator(fn, env_pre)
    args = [ev_h.ev(a) for a in it.args]
    if len(args) == 1:
        args = [te.tconst(0), args[0], te.tconst(1)]
    elif len(args) == 2:
        args = args + [te.tconst(1)]
    programs += 1
    okh = len(args) == 3 and all(isinstance(a, T) for a in args) and args[0].exact == 0 and args[2].exact == 4 and args[1].t == Rterm
    got = "range(%s)" % ", ".join(show(a.t) if isinstance(a, T) else "?" for a in args)
    if not okh and any(isinstance(a, T) and has_uf(a.t) for a in args):
        raise Unsupported("loop bounds %s use operators outside the modelled set" % got)
    r3.expect(okh, "block loop is range(0, len & ~3, 4)", "murmur3_32:loop-header", "the block loop iterates %s; the reference processes blocks at offsets 0, 4, ... below len & ~3" % got, fn=fn, node=loop)

    # ---- block body
    env_b = dict(env_pre)
    env_b[h] = T(("sym", "h"), None)
    env_b[loopvar] = Idx("i", 0)
    ev_b = Evaluator(fn, env_b)
    res = ev_b.block(loop.body)
    if res is not None:
        raise Unsupported("return inside the block loop")
    width_bad += ev_b.width_violations
    calls |= ev_b.calls
    hb = ev_b.env[h]
    programs += 1
    want = ref_block(("sym", "h"))
    _cmp(r3, isinstance(hb, T) and hb.t == want, hb.t if isinstance(hb, T) else None, want, "block body h' = f(h, b[i..i+3])", "murmur3_32:block", "the block step computes %s", fn, loop)
    samples.append({"region": "block", "term": show(want)})
    # other variables assigned in the body must not be live after the loop
    # ---- tails + finaliser
    for r in range(4):
        env_t = {k: v for k, v in env_pre.items() if k not in assigned_in_body or k == h}
        env_t[h] = T(("sym", "h"), None)
        ev_t = Evaluator(fn, env_t, len_low2=r)
        _install_index(ev_t, Rterm)
        out = ev_t.block(post)
        width_bad += ev_t.width_violations
        calls |= ev_t.calls
        programs += 1
        if out is None or out[1] is None:
            r3.fail("murmur3_32:no-return:len%%4=%d" % r, "no value is returned for len %% 4 = %d" % r, fn=fn, node=fn.node)
            continue
        rv = out[1]
        want = ref_final(ref_tail(("sym", "h"), r))
        _cmp(r3, isinstance(rv, T) and rv.t == want, rv.t if isinstance(rv, T) else None, want, "tail(len%%4=%d) + finaliser" % r, "murmur3_32:tail%d+final" % r, "for len %% 4 = " + str(r) + " the tail and finaliser compute %s", fn, post[0] if post else fn.node)
        if isinstance(rv, T):
            r1.expect(rv.w is not None and rv.w <= 32, "returned value has at most 32 bits (len%%4=%d)" % r, "murmur3_32:return-width", "the returned value is not bounded by 32 bits (width %s): the hash is not a uint32 for every string" % rv.w, fn=fn, node=fn.node)
        if r == 3:
            samples.append({"region": "tail3+final", "term": show(want)[:400]})
    seen = set()
    for node, val in width_bad:
        key = node_src(node)
        if key in seen:
            continue
        seen.add(key)
        r1.fail("murmur3_32:unmasked-shift:%s" % key, "`%s` shifts right a value that can exceed 32 bits (width %s): bits above 2**32, which uint32_t arithmetic discards, leak into the result" % (key, val.w), fn=fn, node=node)
    # the function together with the module-level helpers it calls (evaluated in line by the term evaluator)
    scope, todo = [], [fn]
    while todo:
        g = todo.pop()
        if g in scope:
            continue
        scope.append(g)
        for n in ast.walk(g.node):
            if isinstance(n, ast.Call) and isinstance(n.func, ast.Name) and n.func.id in fn.module.functions:
                todo.append(fn.module.functions[n.func.id])
    n_shr = sum(1 for g in scope for n in ast.walk(g.node) if isinstance(n, ast.BinOp) and isinstance(n.op, ast.RShift))
    if not seen:
        r1.ok("all %d right shifts operate on values masked to 32 bits" % n_shr)
    r1.floor("right shifts", n_shr, 3)
    # ---- purity
    allowed = {"len", "ord", "range", ".encode", ".decode", "isinstance", "int"}
    extra = sorted(calls - allowed)
    r2.expect(not extra, "calls are limited to len/ord/range", "murmur3_32:impure-call", "murmur3_32 calls %s" % extra, fn=fn, node=fn.node)
    bad = [n for g in scope for n in ast.walk(g.node) if isinstance(n, (ast.Global, ast.Nonlocal, ast.Attribute, ast.Yield, ast.Lambda))]
    bad = [n for n in bad if not (isinstance(n, ast.Attribute) and n.attr in ("encode", "decode"))]
    r2.expect(not bad, "no globals / attribute access", "murmur3_32:non-local-state", "murmur3_32 uses `%s`" % (node_src(bad[0]) if bad else ""), fn=fn, node=bad[0] if bad else fn.node)
    chk.extra["programs"] = programs
    chk.extra["disagreements_checked"] = programs
    chk.extra["samples"] = samples
    chk.assume("code points 0..255 (each character is one byte), as in the property; for other strings only width/purity are claimed")
    chk.assume("len(data) < 2**32 and 0 <= seed < 2**32")


def _install_index(ev, Rterm):
    """Let `roundedEnd + k` used as a string index denote position R+k."""
    orig_binop = ev.binop
    orig_ev = ev.ev

    def binop(e, l, r):
        if isinstance(e.op, ast.Add):
            for a, b in ((l, r), (r, l)):
                if isinstance(a, T) and a.t == Rterm and isinstance(b, T) and b.exact is not None:
                    res = orig_binop(e, l, r)
                    res_idx = Idx("R", b.exact)
                    ev._idx_of[id(res)] = res_idx
                    ev._keep.append(res)
                    return res
        return orig_binop(e, l, r)

    def evx(e):
        if isinstance(e, ast.Subscript):
            base = orig_ev(e.value)
            if isinstance(base, AStrSym):
                i = orig_ev(e.slice)
                if isinstance(i, T):
                    if i.t == Rterm:
                        return ("char", base, Idx("R", 0))
                    if id(i) in ev._idx_of:
                        return ("char", base, ev._idx_of[id(i)])
                if isinstance(i, Idx):
                    return ("char", base, i)
                if isinstance(i, T) and i.exact is not None:
                    return ("char", base, Idx("0", i.exact))
                raise Unsupported("string index `%s` at line %d" % (node_src(e.slice), e.lineno))
        return Evaluator.ev(ev, e)

    # positions relative to R = len & ~3, for code that walks the tail with an index: with len % 4 = r known,
    # len = R + r, so `length - 1`, `roundedEnd - 1`, comparisons between them and a range() over them are decided
    def as_idx(v):
        if isinstance(v, Idx):
            return v
        if isinstance(v, T):
            if id(v) in ev._idx_of:
                return ev._idx_of[id(v)]
            if v.t == Rterm:
                return Idx("R", 0)
            if v.t == ("sym", "len") and v.exact is None and ev.len_low2 is not None:
                return Idx("R", ev.len_low2)
        return None

    def binop2(e, l, r):
        if isinstance(e.op, (ast.Add, ast.Sub)):
            for a, b, swapped in ((l, r, False), (r, l, True)):
                ai = as_idx(a) if isinstance(a, T) else None
                if ai is not None and ai.base == "R" and isinstance(b, T) and b.exact is not None and not (swapped and isinstance(e.op, ast.Sub)):
                    res = orig_binop(e, l, r)
                    off = ai.off + (b.exact if isinstance(e.op, ast.Add) else -b.exact)
                    ev._idx_of[id(res)] = Idx("R", off)
                    ev._keep.append(res)
                    return res
        return binop(e, l, r)

    orig_cmp = ev.cmp

    def cmp2(op, l, r, node):
        a, b = as_idx(l), as_idx(r)
        if a is not None and b is not None and a.base == b.base and isinstance(op, (ast.Lt, ast.LtE, ast.Gt, ast.GtE, ast.Eq, ast.NotEq)):
            x, y = a.off, b.off
            return {ast.Eq: x == y, ast.NotEq: x != y, ast.Lt: x < y, ast.LtE: x <= y, ast.Gt: x > y, ast.GtE: x >= y}[type(op)]
        return orig_cmp(op, l, r, node)

    orig_stmt = ev.stmt

    def stmt2(st):
        if isinstance(st, ast.For) and isinstance(st.iter, ast.Call) and isinstance(st.iter.func, ast.Name) and st.iter.func.id == "range" and isinstance(st.target, ast.Name) and not st.orelse:
            vals = [ev.ev(a) for a in st.iter.args]
            ev.calls.add("range")
            if len(vals) == 1:
                vals = [te.tconst(0), vals[0], te.tconst(1)]
            elif len(vals) == 2:
                vals = vals + [te.tconst(1)]
            lo, hi = as_idx(vals[0]), as_idx(vals[1])
            if lo is None and isinstance(vals[0], T) and vals[0].exact is not None:
                lo = Idx("0", vals[0].exact)
            if hi is None and isinstance(vals[1], T) and vals[1].exact is not None:
                hi = Idx("0", vals[1].exact)
            step = vals[2].exact if isinstance(vals[2], T) else None
            if lo is None or hi is None or lo.base != hi.base or not step:
                raise Unsupported("loop `for %s in %s` at line %d: bounds are not positions relative to the last full block" % (st.target.id, node_src(st.iter), st.lineno))
            offs = list(range(lo.off, hi.off, step))
            if len(offs) > 8:
                raise Unsupported("loop at line %d runs %d times" % (st.lineno, len(offs)))
            for o_ in offs:
                # an absolute position is an ordinary integer (it may be used in arithmetic: `8 * offset`)
                ev.env[st.target.id] = te.tconst(o_) if lo.base == "0" else Idx(lo.base, o_)
                res = ev.block(st.body)
                if res is not None:
                    return res
            return None
        return orig_stmt(st)

    ev._idx_of = {}
    ev._keep = []
    ev.binop = binop2
    ev.ev = evx
    ev.cmp = cmp2
    ev.stmt = stmt2


def _cmp(rule, ok, got, want, what, construct, msg, fn, node):
    if ok:
        rule.ok("%s matches the reference term" % what)
        return
    if got is not None and has_uf(got):
        raise Unsupported("%s uses an operator the term domain has no exact transformer for: %s" % (what, show(got)[:200]))
    rule.fail(construct, (msg % (show(got)[:300] if got is not None else "a non-integer")) + "; reference: " + show(want)[:300], fn=fn, node=node)
