"""./check entry point.  Exit 0 pass / 1 VIOLATION (not a listed known finding) / 2 ANALYSIS-ERROR."""
import argparse
import importlib
import json
import os
import sys
import time
import traceback

from . import model, report, registry



def out(*a, **k):
    """print that survives a reader which closed the pipe early (`./check C01 | head -1`): the verdict is the exit code."""
    try:
        print(*a, **k)
        sys.stdout.flush()
    except BrokenPipeError:
        try:
            sys.stdout = open(os.devnull, "w")
        except OSError:
            pass


def run_property(prop, tier, seed, root=None, overlay=None, only=None, quiet=False, write=True):
    """Run all rules of a property.  Returns (exit code, Check)."""
    t0 = time.time()
    from . import paths as _paths

    _paths._T0 = t0  # the wall-clock budget of the fixpoints (paths.BUDGET_SECONDS) is per property run
    prog = model.Program(root=root, overlay=overlay)
    mod = importlib.import_module("pmcsa.rules_%s" % prop)
    chk = report.Check(prop, prog, tier=tier, seed=seed)
    prog.__dict__.setdefault("_include_stack", []).append(mod.__name__)  # (for report.include_rules: no mutual includes)
    chk.only = only
    partial = None
    try:
        mod.run(chk)
    except model.AnalysisError as e:
        # rules that already reported violations stand; the part that could not be analysed is reported as well
        if not chk.findings():
            raise
        partial = str(e)
    if chk.undecided and partial is None:
        msg = "%d obligation(s) could not be decided (the abstract value needed is unknown): %s" % (len(chk.undecided), "; ".join("[%s] %s" % km for km in chk.undecided[:4]))
        if not chk.findings():
            raise model.AnalysisError(msg)
        partial = msg
    chk.partial = partial
    if only:
        chk.rules = [r for r in chk.rules if r.id == only or r.id.startswith(only)]
    if not chk.rules:
        raise model.AnalysisError("%s: no rule ran" % prop)
    if not write:
        return (1 if chk.findings() else 0), chk
    mutation = None
    if tier == "thorough" and overlay is None:
        from . import mutants

        mutation = mutants.non_vacuity(prop, root)
    pf = (lambda *a, **k: None) if quiet else out
    code = report.finish(chk, t0, mod.LEVEL, mod.LEVEL_TEXT, mod.TRUSTED, mutation=mutation, print_fn=pf)
    if partial is not None:
        pf("ANALYSIS-ERROR (after the violations above; remaining rules not decided): %s" % partial)
        if code == 0:
            code = 2
    if mutation is not None:
        pf("   non-vacuity: %d/%d in-memory mutants of %s reported by the intended rule, %d not applicable to this tree; %d behaviour-preserving variants silent of %d" % (
            mutation["caught"], mutation["applicable"], prop, mutation["skipped"], mutation["silent_ok"], mutation["silent_total"]))
        sd = mutation.get("seeded") or {}
        if sd.get("total"):
            pf("   seeded corpus: %d/%d recorded seeded changes for %s still reported (%d not applicable to this tree)" % (sd["still_reported"], sd["total"] - sd["skipped"], prop, sd["skipped"]))
            for l in sd["lost"]:
                pf("ANALYSIS-ERROR: seeded change %s is no longer reported by %s (%s)" % (l["id"], prop, l["status"]))
            if sd["lost"] and code == 0:
                code = 2
        if mutation["missed"] or mutation["noisy"]:
            for m in mutation["missed"]:
                pf("ANALYSIS-ERROR: mutant %s not reported (expected rule %s)" % (m["id"], m["rule"]))
            for m in mutation["noisy"]:
                pf("ANALYSIS-ERROR: behaviour-preserving variant %s raised %s" % (m["id"], m["keys"]))
            if code == 0:
                code = 2
    return code, chk


def main(argv=None):
    ap = argparse.ArgumentParser()
    ap.add_argument("prop", nargs="?")
    ap.add_argument("--tier", default=os.environ.get("VERIF_TIER", "quick"), choices=["quick", "thorough"])
    ap.add_argument("--only")
    ap.add_argument("--root", default=None)
    ap.add_argument("--replay")
    ap.add_argument("--selftest", action="store_true")
    ap.add_argument("--jobs", type=int, default=16)
    a = ap.parse_args(argv)
    seed = int(os.environ.get("VERIF_SEED", "0") or 0)
    try:
        if a.replay:
            j = json.load(open(a.replay))
            out("replaying %s: re-running rule %s of %s on the current tree" % (a.replay, j["rule"], j["property"]))
            code, chk = run_property(j["property"], a.tier, seed, root=a.root, only=j["rule"], write=False)
            hit = [f for f in chk.findings() if f.key == j["key"]]
            for f in hit:
                out("VIOLATION property=%s replay=%s" % (j["property"], a.replay))
                out("   " + f.human())
            if not hit:
                out("finding %s no longer reported" % j["key"])
            return 1 if hit else 0
        if a.selftest:
            from . import mutants

            return mutants.selftest(a.prop, a.root, a.jobs)
        if a.prop == "all" or a.prop is None:
            worst = 0
            for p in registry.ALL:
                if p in registry.CLAIMED:
                    c, _ = run_property(p, a.tier, seed, root=a.root)
                    worst = max(worst, c)
            return worst
        code, _ = run_property(a.prop, a.tier, seed, root=a.root, only=a.only)
        return code
    except model.AnalysisError as e:
        out("ANALYSIS-ERROR: %s" % e)
        return 2
    except Exception:
        out("ANALYSIS-ERROR: internal error in the checker:")
        traceback.print_exc(file=sys.stdout)
        return 2


if __name__ == "__main__":
    sys.exit(main())
