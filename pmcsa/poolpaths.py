"""Path analyses of pymemcache/pool.py shared by C08, C09 and C10."""
import ast
from collections import namedtuple

from .model import AnalysisError, node_src, is_self_attr, call_name
from .paths import Interp, Domain, Env, TOP, Const, Neq, NONE, Opaque, Exc, ORD, ASYNC, fmt_trace
from .report import walk_no_nested

POOL = "pymemcache/pool.py"
Truthiness = namedtuple("Truthiness", "b")
POOLED = Opaque("pooled-object")


class BracketDomain(Domain):
    """get_and_release: count release/destroy calls on the object obtained from get()."""

    def __init__(self, prog, fn):
        super().__init__(prog, fn)
        self.bad_args = []

    def truth(self, v, state=None):
        if isinstance(v, Truthiness):
            return v.b
        return super().truth(v, state)

    def call(self, node, fval, args, kwargs, state):
        name = call_name(node)
        if name == "self.get":
            s2 = state.set("got", 1)
            return [("ok", POOLED, s2)] + self.call_raises(node, state)
        if name in ("self.release", "self.destroy"):
            if not args or args[0] != POOLED:
                self.bad_args.append(node)
            s2 = state.set("rel", min(2, state.get("rel", 0) + 1)).set("how", name.split(".")[1])
            # summarised as atomic for slot accounting: the object leaves _used_objs before anything else can fail
            # (C08.R3 checks that ordering inside release/destroy)
            return [("ok", NONE, s2)]
        return [("ok", TOP, state)] + self.call_raises(node, state)


def bracket_exits(prog):
    """-> (fn, list of dict(kind, colour, rel, how, dof, trace))."""
    pool = prog.cls("ObjectPool")
    fn = prog.method(pool, "get_and_release")
    if not any("contextmanager" in d for d in fn.decorators):
        raise AnalysisError("ObjectPool.get_and_release is no longer a contextlib.contextmanager generator")
    if fn.param("destroy_on_fail") is None:
        raise AnalysisError("ObjectPool.get_and_release lost its destroy_on_fail parameter")
    n_yield = sum(1 for n in walk_no_nested(fn.node) if isinstance(n, ast.Yield))
    if n_yield != 1:
        raise AnalysisError("get_and_release has %d yield expressions (a context manager generator needs exactly 1)" % n_yield)
    recs = []
    for dof in (True, False):
        dom = BracketDomain(prog, fn)
        st = Env({"rel": 0, "how": None, "got": 0, "destroy_on_fail": Truthiness(dof)})
        outs = Interp(dom, fn.node, prog).run(st)
        for s, exc, t in outs.of("exc"):
            recs.append(dict(kind="exc", colour=exc.colour, exc=exc, rel=s.get("rel"), how=s.get("how"), got=s.get("got"), dof=dof, trace=t))
        for s, v, t in outs.of("ret"):
            thrown = [x for x in t if isinstance(x, str) and x.startswith("except@")]
            recs.append(dict(kind="ret", colour=None, exc=None, rel=s.get("rel"), how=s.get("how"), got=s.get("got"), dof=dof, trace=t, swallowed=bool(thrown)))
        if dom.bad_args:
            recs.append(dict(kind="badarg", node=dom.bad_args[0], dof=dof, rel=None, how=None, got=1, colour=None, trace=()))
    return fn, recs


def guarded_fields(prog):
    """Attributes of ObjectPool initialised to collections.deque in __init__, and the lock attribute."""
    pool = prog.cls("ObjectPool")
    init = prog.method(pool, "__init__")
    fields = []
    for n in walk_no_nested(init.node):
        tgt, val = None, None
        if isinstance(n, ast.Assign) and len(n.targets) == 1:
            tgt, val = n.targets[0], n.value
        elif isinstance(n, ast.AnnAssign) and n.value is not None:
            tgt, val = n.target, n.value
        if tgt is not None and is_self_attr(tgt) and isinstance(val, ast.Call) and call_name(val) in ("collections.deque", "deque"):
            fields.append(tgt.attr)
    locks = set()
    for f in pool.methods.values():
        for n in walk_no_nested(f.node):
            if isinstance(n, ast.With):
                for it in n.items:
                    if is_self_attr(it.context_expr):
                        locks.add(it.context_expr.attr)
    return sorted(set(fields)), sorted(locks)
