"""pmcsa: pymemcache static analysis. stdlib ast only; never imports or runs /repo."""
